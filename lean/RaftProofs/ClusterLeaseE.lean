import RaftProofs.ClusterLeaseD

/-!
Cluster-level lease theorem (C16, second half), helper lemmas part E: what ONE call of `Node.call`
(any `NodeOp` of the cluster semantics) does — the invariant `LInv` between the states before and
after, and the complete list of the ways the call can raise the term (`Rise`).
-/
namespace RaftModel
namespace Raft
namespace LS
open VoteOb Node RaftProps.C16

/-- a message the application builds: no transfer trigger, no pre-vote traffic -/
def NoReq (m : Message) : Prop :=
  m.msgType ≠ .msgTimeoutNow ∧ m.msgType ≠ .msgRequestPreVote ∧ m.msgType ≠ .msgRequestPreVoteResponse

/-- the tag of a call: the delivered message, or a message built by the application -/
def Tag (op : NodeOp) (m' : Message) : Prop := op = .step m' ∨ ((∀ m, op ≠ .step m) ∧ NoReq m')

/-- every way a call can raise the node's term -/
def Rise (r : Raft) (op : NodeOp) (r' : Raft) : Prop :=
  (∃ m, op = .step m ∧
    ((r.term < m.term ∧ m.msgType ≠ .msgRequestPreVote ∧
        ¬ (m.msgType = .msgRequestPreVoteResponse ∧ m.reject = false) ∧
        (r'.term = m.term ∨ m.msgType = .msgTimeoutNow)) ∨
     (r.state = .preCandidate ∧ m.msgType = .msgRequestPreVoteResponse ∧ r'.term = r.term + 1 ∧
        (r.prs.recordVote m.frm (!m.reject)).tallyVotes.2.2 = .won ∧
        (m.reject = true ∨ m.term = r.term + 1)) ∨
     m.msgType = .msgTimeoutNow)) ∨
  (r'.term = r.term + 1 ∧ (r.preVote = false ∨ selfQuorum r))

/-- what a call gives: the invariant under some tag, and the causes of a term rise -/
def CallOut (st : NState) (op : NodeOp) (st' : NState) : Prop :=
  (∃ m', LInv st.raft m' st'.raft ∧ Tag op m') ∧
  (st.raft.term < st'.raft.term → Rise st.raft op st'.raft)

theorem noReq_local : NoReq CV.mLocal := by unfold NoReq CV.mLocal; simp

/-- a call that only runs plain helpers -/
theorem callOut_mf {st st' : NState} {op : NodeOp} {rnd : Option Nat} (hop : ∀ m, op ≠ .step m)
    (hf : MF ({ st.raft with nextRand := rnd } : Raft) st'.raft) : CallOut st op st' := by
  refine ⟨⟨CV.mLocal, ?_, Or.inr ⟨hop, noReq_local⟩⟩, fun hlt => ?_⟩
  · exact ((LInv.refl _ CV.mLocal).mf hf).rebase (a := st.raft) (Or.inl (by simp [CV.mLocal]))
      rfl rfl rfl rfl rfl
  · have : st'.raft.term = st.raft.term := hf.term
    omega

/-- … the same, anchored at the state before the random draw is set -/
theorem callOut_mf0 {st st' : NState} {op : NodeOp} (hop : ∀ m, op ≠ .step m)
    (hf : MF st.raft st'.raft) : CallOut st op st' := by
  refine ⟨⟨CV.mLocal, (LInv.refl _ CV.mLocal).mf hf, Or.inr ⟨hop, noReq_local⟩⟩, fun hlt => ?_⟩
  have : st'.raft.term = st.raft.term := hf.term
  omega

/-- a call that steps a message the application built -/
theorem callOut_local {st st' : NState} {op : NodeOp} {rnd : Option Nat} {m : Message}
    {e : Option RaftError} (hop : ∀ m, op ≠ .step m) (hz : m.term = 0) (hq : NoReq m)
    (hc : ({ st.raft with nextRand := rnd } : Raft).step m = .ok (st'.raft, e)) :
    CallOut st op st' := by
  refine ⟨⟨m, ?_, Or.inr ⟨hop, hq⟩⟩, fun hlt => ?_⟩
  · exact (step_linv hc).rebase (a := st.raft) (Or.inl hq.2.1) rfl rfl rfl rfl rfl
  · rcases step_not_higher (by rw [hz]; exact Nat.not_lt_zero _) hc with c | ⟨_, c2, _⟩ |
      ⟨c1, c2, _, _, c5⟩
    · have : st'.raft.term = st.raft.term := c
      omega
    · exact absurd c2 hq.2.2
    · right
      refine ⟨c2, ?_⟩
      rcases c5 with c5 | c5 | c5
      · exact absurd c5 hq.1
      · exact Or.inl c5
      · exact Or.inr c5

theorem callOut_localIgnore {st st' : NState} {op : NodeOp} {rnd : Option Nat} {m : Message}
    (hop : ∀ m, op ≠ .step m) (hz : m.term = 0) (hq : NoReq m)
    (hc : ({ st.raft with nextRand := rnd } : Raft).stepIgnore m = .ok st'.raft) :
    CallOut st op st' := by
  unfold stepIgnore at hc
  rw [Res.bind_eq_ok_iff] at hc
  obtain ⟨⟨r1, e⟩, h1, h2⟩ := hc
  cases h2
  exact callOut_local hop hz hq h1

/-- the term over a leader's `tick` -/
theorem tickHeartbeat_term {a r' : Raft} {b : Bool} (hc : a.tickHeartbeat = .ok (r', b)) :
    r'.term = a.term := by
  have key : ∀ (r r2 : Raft) (t : MsgType) (frm : Option Nat),
      t ≠ .msgHup → t ≠ .msgTimeoutNow → t ≠ .msgRequestPreVoteResponse →
      r.stepIgnore (newMessage 0 t frm) = .ok r2 → r2.term = r.term := by
    intro r r2 t frm h1 h2 h3 hs
    unfold stepIgnore at hs
    rw [Res.bind_eq_ok_iff] at hs
    obtain ⟨⟨r3, e⟩, h4, h5⟩ := hs
    cases h5
    rcases step_not_higher (by simp [newMessage]) h4 with c | ⟨_, c2, _⟩ | ⟨c1, _⟩
    · exact c
    · exact absurd c2 h3
    · rcases c1 with c1 | ⟨c1, _⟩
      · exact absurd c1 h1
      · exact absurd c1 h2
  unfold tickHeartbeat at hc
  simp only at hc
  rw [Res.bind_eq_ok_iff] at hc
  obtain ⟨⟨r4, hr⟩, h1, h2⟩ := hc
  have t4 : r4.term = a.term := by
    split at h1
    · rw [Res.bind_eq_ok_iff] at h1
      obtain ⟨⟨r3, hr3⟩, h3, h4⟩ := h1
      have t3 : r3.term = a.term := by
        split at h3
        · rw [Res.bind_eq_ok_iff] at h3
          obtain ⟨r3', h5, h6⟩ := h3
          cases h6
          have := key _ _ .msgCheckQuorum _ (by decide) (by decide) (by decide) h5
          exact this
        · cases h3; rfl
      dsimp only at h4
      split at h4
      · cases h4; exact t3
      · cases h4; exact t3
    · cases h1; rfl
  dsimp only at h2
  split at h2
  · cases h2; exact t4
  · split at h2
    · rw [Res.bind_eq_ok_iff] at h2
      obtain ⟨r5, h5, h6⟩ := h2
      cases h6
      have := key _ _ .msgBeat _ (by decide) (by decide) (by decide) h5
      exact this.trans t4
    · cases h2; exact t4

theorem tickElection_rise {a r' : Raft} {b : Bool} (hc : a.tickElection = .ok (r', b))
    (hlt : a.term < r'.term) : r'.term = a.term + 1 ∧ (a.preVote = false ∨ selfQuorum a) := by
  unfold tickElection at hc
  simp only at hc
  split at hc
  · cases hc; exact absurd hlt (Nat.lt_irrefl _)
  · rw [Res.bind_eq_ok_iff] at hc
    obtain ⟨r1, h1, h2⟩ := hc
    cases h2
    unfold stepIgnore at h1
    rw [Res.bind_eq_ok_iff] at h1
    obtain ⟨⟨r2, e⟩, h3, h4⟩ := h1
    cases h4
    rcases step_not_higher (by simp [newMessage]) h3 with c | ⟨_, c2, _⟩ | ⟨_, c2, _, _, c5⟩
    · have : r'.term = a.term := c
      exact absurd hlt (by rw [this]; exact Nat.lt_irrefl _)
    · cases c2
    · refine ⟨c2, ?_⟩
      rcases c5 with c5 | c5 | c5
      · cases c5
      · exact Or.inl c5
      · exact Or.inr c5

/-- **one call of a node** — every `NodeOp` of the cluster semantics (`step` for a delivered message,
and the application's calls; `drain` is the `send` step of the cluster) -/
theorem call_out (st st' : NState) (rnd : Option Nat) (op : NodeOp) (res : OpRes)
    (hop : op ≠ .drain ∧ ∀ m, op ≠ .rstep m)
    (h : Node.call st rnd op = .ok (res, st')) : CallOut st op st' := by
  unfold Node.call at h
  cases op with
  | tick =>
    simp only [applyOp] at h
    split at h
    · rename_i raft b heq
      cases h
      have heq' : ({ st.raft with nextRand := rnd } : Raft).tick = .ok (raft, b) := heq
      refine ⟨⟨CV.mLocal, ?_, Or.inr ⟨(fun m hm => by cases hm), noReq_local⟩⟩, fun hlt => ?_⟩
      · exact (tick_linv heq').rebase (a := st.raft) (Or.inl (by simp [CV.mLocal])) rfl rfl rfl rfl rfl
      · have hlt' : ({ st.raft with nextRand := rnd } : Raft).term < raft.term := hlt
        unfold tick at heq'
        split at heq'
        · obtain ⟨q1, q2⟩ := tickElection_rise heq' hlt'
          exact Or.inr ⟨q1, q2⟩
        · obtain ⟨q1, q2⟩ := tickElection_rise heq' hlt'
          exact Or.inr ⟨q1, q2⟩
        · obtain ⟨q1, q2⟩ := tickElection_rise heq' hlt'
          exact Or.inr ⟨q1, q2⟩
        · have := tickHeartbeat_term heq'
          exact absurd hlt' (by rw [this]; exact Nat.lt_irrefl _)
    · cases h
    · cases h
  | step m =>
    simp only [applyOp] at h
    obtain ⟨raft, e, hx, hr⟩ := CV.unitRes_ok h
    refine ⟨⟨m, ?_, Or.inl rfl⟩, fun hlt => ?_⟩
    · rw [hr]
      exact (rawStep_linv hx).rebase (a := st.raft) (Or.inr (fun g => g)) rfl rfl rfl rfl rfl
    · rw [hr] at hlt ⊢
      unfold RawNode.step at hx
      split at hx
      · cases hx; exact absurd hlt (Nat.lt_irrefl _)
      · rename_i hloc
        split at hx
        · left
          refine ⟨m, rfl, ?_⟩
          rcases C16_term_raised_only_by_higher_term_message_or_won_prevote _ _ _ _ hx hlt with
            ⟨c1, c2, c3, c4⟩ | c | ⟨c1, _, _, _, c5⟩
          · refine Or.inl ⟨c1, c2, c3, ?_⟩
            rcases c4 with c4 | ⟨c4 | c4, _⟩
            · exact Or.inl c4
            · rw [c4] at hloc; exact absurd rfl hloc
            · exact Or.inr c4
          · exact Or.inr (Or.inl c)
          · right; right
            rcases c1 with c1 | ⟨c1, _⟩
            · rw [c1] at hloc; exact absurd rfl hloc
            · exact c1
        · cases hx; exact absurd hlt (Nat.lt_irrefl _)
  | rstep m => exact absurd rfl (hop.2 m)
  | propose c d =>
    simp only [applyOp] at h
    obtain ⟨raft, e, hx, hr⟩ := CV.unitRes_ok h
    rw [← hr] at hx
    exact callOut_local (fun m hm => by cases hm) rfl (by unfold NoReq; simp) hx
  | proposeCc t c d =>
    simp only [applyOp] at h
    obtain ⟨raft, e, hx, hr⟩ := CV.unitRes_ok h
    rw [← hr] at hx
    exact callOut_local (fun m hm => by cases hm) rfl (by unfold NoReq; simp) hx
  | readIndex c =>
    simp only [applyOp] at h
    obtain ⟨raft, hx, hr⟩ := CV.okRes_ok h
    rw [← hr] at hx
    exact callOut_localIgnore (fun m hm => by cases hm) rfl (by unfold NoReq; simp) hx
  | transferLeader x =>
    simp only [applyOp] at h
    obtain ⟨raft, hx, hr⟩ := CV.okRes_ok h
    rw [← hr] at hx
    exact callOut_localIgnore (fun m hm => by cases hm) rfl (by unfold NoReq; simp) hx
  | campaign =>
    simp only [applyOp] at h
    obtain ⟨raft, e, hx, hr⟩ := CV.unitRes_ok h
    rw [← hr] at hx
    exact callOut_local (fun m hm => by cases hm) rfl (by unfold NoReq; simp) hx
  | ping =>
    simp only [applyOp] at h
    obtain ⟨raft, hx, hr⟩ := CV.okRes_ok h
    rw [← hr] at hx
    exact callOut_mf (fun m hm => by cases hm) (ping_mf hx MF.rf)
  | requestSnapshot =>
    simp only [applyOp] at h
    obtain ⟨raft, e, hx, hr⟩ := CV.unitRes_ok h
    rw [← hr] at hx
    exact callOut_mf (fun m hm => by cases hm) (requestSnapshot_mf hx MF.rf)
  | reportUnreachable x =>
    simp only [applyOp] at h
    obtain ⟨raft, hx, hr⟩ := CV.okRes_ok h
    rw [← hr] at hx
    exact callOut_localIgnore (fun m hm => by cases hm) rfl (by unfold NoReq; simp) hx
  | reportSnapshot x f =>
    simp only [applyOp] at h
    obtain ⟨raft, hx, hr⟩ := CV.okRes_ok h
    rw [← hr] at hx
    exact callOut_localIgnore (fun m hm => by cases hm) rfl (by unfold NoReq; simp) hx
  | applyConfChange cc =>
    simp only [applyOp] at h
    have fin : ∀ (raft : Raft) (x : Except ErrKind ConfState) (st2 : NState), st2.raft = raft →
        RawNode.applyConfChange ({ st.raft with nextRand := rnd } : Raft) cc = .ok (raft, x) →
        CallOut st (.applyConfChange cc) st2 := by
      intro raft x st2 e2 hx
      obtain ⟨q1, q2⟩ := applyConfChange_linv hx
      refine ⟨⟨CV.mLocal, ?_, Or.inr ⟨(fun m hm => by cases hm), noReq_local⟩⟩, fun hlt => ?_⟩
      · rw [e2]
        exact q1.rebase (a := st.raft) (Or.inl (by simp [CV.mLocal])) rfl rfl rfl rfl rfl
      · rw [e2, q2] at hlt; exact absurd hlt (Nat.lt_irrefl _)
    split at h
    · rename_i raft cs heq
      cases h; exact fin _ _ _ rfl heq
    · rename_i raft e heq
      cases h; exact fin _ _ _ rfl heq
    · cases h
    · cases h
  | stabilize =>
    simp only [applyOp, Node.stabilize] at h
    split at h
    · cases h
      exact callOut_mf0 (fun m hm => by cases hm) (MF.mk' MF.rf)
    · cases h
    · cases h
  | onPersistEntries i t =>
    simp only [applyOp] at h
    obtain ⟨raft, hx, hr⟩ := CV.okRes_ok h
    rw [← hr] at hx
    exact callOut_mf (fun m hm => by cases hm) (onPersistEntries_mf hx MF.rf)
  | persistSnap =>
    simp only [applyOp, Node.persistSnap] at h
    split at h
    · cases h; exact callOut_mf0 (fun m hm => by cases hm) (MF.mk' MF.rf)
    · split at h
      · cases h; exact callOut_mf0 (fun m hm => by cases hm) (MF.mk' MF.rf)
      · cases h
      · split at h
        · cases h
        · cases h
        · split at h
          · rename_i raft hop'
            cases h
            exact callOut_mf0 (fun m hm => by cases hm)
              (onPersistSnap_mf hop' (MF.mk' MF.rf))
          · cases h
          · cases h
  | commitApply k =>
    simp only [applyOp, Node.commitApply] at h
    split at h
    · rename_i r2 hb
      rw [Res.bind_eq_ok_iff] at hb
      obtain ⟨r1, h1, h2⟩ := hb
      have m1 : MF ({ st.raft with nextRand := rnd } : Raft) r1 := by
        split at h1
        · split at h1
          · cases h1; exact reduceUncommittedSize_mf MF.rf
          · cases h1; exact MF.rf
          · cases h1
        · cases h1; exact MF.rf
      have m2 := commitApply_mf h2 m1
      cases h
      refine callOut_mf (rnd := rnd) (fun m hm => by cases hm) ?_
      dsimp only
      split
      · unfold withStore; exact MF.mk' m2
      · exact m2
    · cases h
    · cases h
  | compact k =>
    simp only [applyOp] at h
    split at h
    · cases h
      first
        | exact callOut_mf0 (fun m hm => by cases hm) (by unfold withStore; exact MF.mk' MF.rf)
        | exact callOut_mf (rnd := rnd) (fun m hm => by cases hm) (by unfold withStore; exact MF.mk' MF.rf)
    · cases h
    · cases h
  | drain => exact absurd rfl hop.1
  | triggerSnap =>
    simp only [applyOp] at h
    cases h
    first
      | exact callOut_mf0 (fun m hm => by cases hm) (by unfold withStore; exact MF.mk' MF.rf)
      | exact callOut_mf (rnd := rnd) (fun m hm => by cases hm) (by unfold withStore; exact MF.mk' MF.rf)
  | triggerLog b =>
    simp only [applyOp] at h
    cases h
    first
      | exact callOut_mf0 (fun m hm => by cases hm) (by unfold withStore; exact MF.mk' MF.rf)
      | exact callOut_mf (rnd := rnd) (fun m hm => by cases hm) (by unfold withStore; exact MF.mk' MF.rf)
  | setPriority p =>
    simp only [applyOp] at h
    cases h
    first
      | exact callOut_mf0 (fun m hm => by cases hm) (by unfold Raft.setPriority; exact MF.mk' MF.rf)
      | exact callOut_mf (rnd := rnd) (fun m hm => by cases hm) (by unfold Raft.setPriority; exact MF.mk' MF.rf)
  | setBatchAppend b =>
    simp only [applyOp] at h
    cases h
    first
      | exact callOut_mf0 (fun m hm => by cases hm) (by unfold Raft.setBatchAppend; exact MF.mk' MF.rf)
      | exact callOut_mf (rnd := rnd) (fun m hm => by cases hm) (by unfold Raft.setBatchAppend; exact MF.mk' MF.rf)
  | skipBcastCommit b =>
    simp only [applyOp] at h
    cases h
    first
      | exact callOut_mf0 (fun m hm => by cases hm) (by unfold Raft.setSkipBcastCommit; exact MF.mk' MF.rf)
      | exact callOut_mf (rnd := rnd) (fun m hm => by cases hm) (by unfold Raft.setSkipBcastCommit; exact MF.mk' MF.rf)
  | setCheckQuorum b =>
    simp only [applyOp] at h
    cases h
    first
      | exact callOut_mf0 (fun m hm => by cases hm) (by unfold Raft.setCheckQuorum; exact MF.mk' MF.rf)
      | exact callOut_mf (rnd := rnd) (fun m hm => by cases hm) (by unfold Raft.setCheckQuorum; exact MF.mk' MF.rf)
  | adjustMaxInflight id cap =>
    simp only [applyOp] at h
    obtain ⟨raft, hx, hr⟩ := CV.okRes_ok h
    rw [← hr] at hx
    exact callOut_mf (fun m hm => by cases hm) (adjustMaxInflightMsgs_mf hx MF.rf)
  | maybeFreeInflightBuffers =>
    simp only [applyOp] at h
    cases h
    first
      | exact callOut_mf0 (fun m hm => by cases hm) (by unfold Raft.maybeFreeInflightBuffers Raft.mapProgress; exact MF.mk' MF.rf)
      | exact callOut_mf (rnd := rnd) (fun m hm => by cases hm) (by unfold Raft.maybeFreeInflightBuffers Raft.mapProgress; exact MF.mk' MF.rf)
  | enableGroupCommit b =>
    simp only [applyOp] at h
    obtain ⟨raft, hx, hr⟩ := CV.okRes_ok h
    rw [← hr] at hx
    exact callOut_mf (fun m hm => by cases hm) (enableGroupCommit_mf hx MF.rf)
  | assignCommitGroups v =>
    simp only [applyOp] at h
    obtain ⟨raft, hx, hr⟩ := CV.okRes_ok h
    rw [← hr] at hx
    exact callOut_mf (fun m hm => by cases hm) (assignCommitGroups_mf hx MF.rf)
  | clearCommitGroup =>
    simp only [applyOp] at h
    cases h
    first
      | exact callOut_mf0 (fun m hm => by cases hm) (by unfold Raft.clearCommitGroup Raft.mapProgress; exact MF.mk' MF.rf)
      | exact callOut_mf (rnd := rnd) (fun m hm => by cases hm) (by unfold Raft.clearCommitGroup Raft.mapProgress; exact MF.mk' MF.rf)
  | checkGroupCommitConsistent =>
    simp only [applyOp] at h
    split at h
    · cases h; exact callOut_mf0 (fun m hm => by cases hm) (MF.mk' MF.rf)
    · cases h; exact callOut_mf0 (fun m hm => by cases hm) (MF.mk' MF.rf)
    · cases h
    · cases h
  | setMaxApplyUnpersistedLogLimit x =>
    simp only [applyOp] at h
    cases h
    first
      | exact callOut_mf0 (fun m hm => by cases hm) (by unfold Raft.setMaxApplyUnpersistedLogLimit; exact MF.mk' MF.rf)
      | exact callOut_mf (rnd := rnd) (fun m hm => by cases hm) (by unfold Raft.setMaxApplyUnpersistedLogLimit; exact MF.mk' MF.rf)
  | setMaxCommittedSizePerReady x =>
    simp only [applyOp] at h
    cases h
    first
      | exact callOut_mf0 (fun m hm => by cases hm) (by unfold Raft.setMaxCommittedSizePerReady; exact MF.mk' MF.rf)
      | exact callOut_mf (rnd := rnd) (fun m hm => by cases hm) (by unfold Raft.setMaxCommittedSizePerReady; exact MF.mk' MF.rf)
  | onEntriesFetched to term aggr =>
    rcases CV.onEntriesFetched_ok h with h | ⟨-, -, -, raft, hx, h⟩
    · cases h; exact callOut_mf0 (fun m hm => by cases hm) (MF.mk' MF.rf)
    · cases h
      rcases hx with hx | hx
      · exact callOut_mf (rnd := rnd) (fun m hm => by cases hm) (sendAppendAggressively_mf hx MF.rf)
      · exact callOut_mf (rnd := rnd) (fun m hm => by cases hm) (sendAppend_mf hx MF.rf)

end LS
end Raft
end RaftModel
