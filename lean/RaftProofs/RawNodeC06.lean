import RaftProofs.RawNode

/-!
Helper lemmas for C06b ("persist before send" on the RawNode model):

* the order `ple` on `(term, vote)` pairs that Raft's term / vote discipline induces, the numbering
  of the handed-out Readies (`NumsOk`), the **pure** invariant `Inv` over the ten numbers / lists
  the property depends on, and its preservation by the five abstract moves (`Inv.env`, `Inv.ready`,
  `Inv.write`, `Inv.persisted`, `Inv.commit`);
* what each `RawNodeM` call does to the fields the invariant reads (`Fr`, `*_shape`);
* the storage side: which calls touch `log.store` at all, and what `storageWrite` does to the stored
  hard state.
-/
namespace RaftModel
namespace C06

/-! ### the order on (term, vote) pairs -/

/-- `(t, v) ⊑ (t', v')`: a later term, or the same term and the vote either unchanged or cast in
between (`0` = no vote).  This is what `Raft` allows between two points in time
(`C02_term_monotone`, `C02_vote_changes_only_from_none`). -/
def ple (t v t' v' : Nat) : Prop := t < t' ∨ (t = t' ∧ (v = v' ∨ v = 0))

theorem ple_refl (t v : Nat) : ple t v t v := by unfold ple; omega

theorem ple_trans {t1 v1 t2 v2 t3 v3 : Nat} (h1 : ple t1 v1 t2 v2) (h2 : ple t2 v2 t3 v3) :
    ple t1 v1 t3 v3 := by unfold ple at *; omega

theorem ple_antisymm {t1 v1 t2 v2 : Nat} (h1 : ple t1 v1 t2 v2) (h2 : ple t2 v2 t1 v1) :
    t1 = t2 ∧ v1 = v2 := by unfold ple at *; omega

/-! ### numbering of the handed-out Readies (newest first) -/

/-- `handed` (newest first) carries the numbers `m, m-1, …, 1` -/
def NumsOk : List Ready → Nat → Prop
  | [], m => m = 0
  | rd :: rest, m => rd.number = m ∧ m ≠ 0 ∧ NumsOk rest (m - 1)

theorem NumsOk.mem {l : List Ready} {m : Nat} (h : NumsOk l m) {rd : Ready} (hm : rd ∈ l) :
    1 ≤ rd.number ∧ rd.number ≤ m := by
  induction l generalizing m with
  | nil => cases hm
  | cons a t ih =>
    obtain ⟨h1, h2, h3⟩ := h
    rcases List.mem_cons.1 hm with rfl | hm
    · omega
    · have := ih h3 hm; omega

theorem NumsOk.unique {l : List Ready} {m : Nat} (h : NumsOk l m) {a b : Ready} (ha : a ∈ l)
    (hb : b ∈ l) (hab : a.number = b.number) : a = b := by
  induction l generalizing m with
  | nil => cases ha
  | cons x t ih =>
    obtain ⟨h1, h2, h3⟩ := h
    rcases List.mem_cons.1 ha with ha' | ha' <;> rcases List.mem_cons.1 hb with hb' | hb'
    · rw [ha', hb']
    · have := h3.mem hb'; subst ha'; omega
    · have := h3.mem ha'; subst hb'; omega
    · exact ih h3 ha' hb'

theorem NumsOk.cons {l : List Ready} {m : Nat} (h : NumsOk l m) {rd : Ready}
    (hn : rd.number = m + 1) : NumsOk (rd :: l) (m + 1) :=
  ⟨hn, by omega, by simpa using h⟩

theorem NumsOk.head {rd : Ready} {rest : List Ready} {m : Nat} (h : NumsOk (rd :: rest) m) :
    rd.number = m ∧ m ≠ 0 := ⟨h.1, h.2.1⟩

/-! ### the invariant, on the bare data

`t v` current term / vote, `pt pv` the pair in `prev_hs`, `u` = `unpersisted_hs_number`,
`m` = `max_number`, `H` the Readies handed out (newest first), `w` the number of the newest Ready
written to stable storage, `dT dV` the pair in stable storage. -/
structure Inv (t v pt pv u m : Nat) (H : List Ready) (w dT dV : Nat) : Prop where
  nums : NumsOk H m
  wr : w ≤ m
  uhnLe : u ≤ m
  prevLe : ple pt pv t v
  durLe : ple dT dV t v
  /-- a hard state handed out is a past hard state of the node -/
  hsLe : ∀ rd ∈ H, ∀ h, rd.hs = some h → ple h.term h.vote t v
  /-- … and they were handed out in order -/
  ord : ∀ r1 ∈ H, ∀ r2 ∈ H, r1.number ≤ r2.number → ∀ h1 h2, r1.hs = some h1 → r2.hs = some h2 →
    ple h1.term h1.vote h2.term h2.vote
  /-- the durable pair sits between the written and the unwritten ones -/
  d1 : ∀ rd ∈ H, rd.number ≤ w → ∀ h, rd.hs = some h → ple h.term h.vote dT dV
  d2 : ∀ rd ∈ H, w < rd.number → ∀ h, rd.hs = some h → ple dT dV h.term h.vote
  /-- the newest Ready: if it carries a (term, vote) that `prev_hs` does not have yet, it is still
  the unpersisted one, or it has been reported persisted — hence written -/
  newest : ∀ rd rest, H = rd :: rest → ∀ h, rd.hs = some h → (h.term ≠ pt ∨ h.vote ≠ pv) →
    u = rd.number ∨ (u = 0 ∧ w = rd.number)
  /-- the unpersisted number names a Ready that carries a hard state at least `prev_hs` -/
  uhs : u ≠ 0 → ∃ rd ∈ H, rd.number = u ∧ ∃ h, rd.hs = some h ∧ ple pt pv h.term h.vote
  /-- **the key clause**: `ready()` releases immediate messages only in this situation -/
  key : t = pt → v = pv → u = 0 → dT = t ∧ dV = v

theorem Inv.init (t v : Nat) : Inv t v t v 0 0 [] 0 t v where
  nums := rfl
  wr := Nat.le_refl _
  uhnLe := Nat.le_refl _
  prevLe := ple_refl _ _
  durLe := ple_refl _ _
  hsLe := fun _ h => by cases h
  ord := fun _ h => by cases h
  d1 := fun _ h => by cases h
  d2 := fun _ h => by cases h
  newest := fun _ _ h => by cases h
  uhs := fun h => absurd rfl h
  key := fun _ _ _ => ⟨rfl, rfl⟩

/-- `Raft::step / tick / …`: the pair moves up -/
theorem Inv.env {t v pt pv u m : Nat} {H : List Ready} {w dT dV : Nat}
    (i : Inv t v pt pv u m H w dT dV) {t' v' : Nat} (hle : ple t v t' v') :
    Inv t' v' pt pv u m H w dT dV where
  nums := i.nums
  wr := i.wr
  uhnLe := i.uhnLe
  prevLe := ple_trans i.prevLe hle
  durLe := ple_trans i.durLe hle
  hsLe := fun rd hm h hh => ple_trans (i.hsLe rd hm h hh) hle
  ord := i.ord
  d1 := i.d1
  d2 := i.d2
  newest := i.newest
  uhs := i.uhs
  key := by
    intro h1 h2 h3
    subst h1 h2
    obtain ⟨e1, e2⟩ := ple_antisymm hle i.prevLe
    subst e1 e2
    exact i.key rfl rfl h3

/-- `ready()` -/
theorem Inv.ready {t v pt pv u m : Nat} {H : List Ready} {w dT dV : Nat}
    (i : Inv t v pt pv u m H w dT dV) {rd : Ready} {u' : Nat} (hnum : rd.number = m + 1)
    (hhs : ∀ h, rd.hs = some h → h.term = t ∧ h.vote = v)
    (hch : (v ≠ pv ∨ t ≠ pt) → u' = m + 1 ∧ ∃ h, rd.hs = some h)
    (hsame : ¬ (v ≠ pv ∨ t ≠ pt) → u' = u) :
    Inv t v pt pv u' (m + 1) (rd :: H) w dT dV where
  nums := i.nums.cons hnum
  wr := Nat.le_succ_of_le i.wr
  uhnLe := by
    by_cases hc : v ≠ pv ∨ t ≠ pt
    · rw [(hch hc).1]; exact Nat.le_refl _
    · rw [hsame hc]; exact Nat.le_succ_of_le i.uhnLe
  prevLe := i.prevLe
  durLe := i.durLe
  hsLe := by
    intro r hm h hh
    rcases List.mem_cons.1 hm with rfl | hm
    · obtain ⟨e1, e2⟩ := hhs h hh; rw [e1, e2]; exact ple_refl _ _
    · exact i.hsLe r hm h hh
  ord := by
    intro r1 hm1 r2 hm2 hle h1 h2 hh1 hh2
    rcases List.mem_cons.1 hm1 with e1 | hm1' <;> rcases List.mem_cons.1 hm2 with e2 | hm2'
    · subst e1 e2; rw [hh1] at hh2; cases hh2; exact ple_refl _ _
    · subst e1; have := i.nums.mem hm2'; omega
    · subst e2; obtain ⟨e1, e2⟩ := hhs h2 hh2; rw [e1, e2]; exact i.hsLe r1 hm1' h1 hh1
    · exact i.ord r1 hm1' r2 hm2' hle h1 h2 hh1 hh2
  d1 := by
    intro r hm hle h hh
    rcases List.mem_cons.1 hm with rfl | hm
    · have := i.wr; omega
    · exact i.d1 r hm hle h hh
  d2 := by
    intro r hm hlt h hh
    rcases List.mem_cons.1 hm with rfl | hm
    · obtain ⟨e1, e2⟩ := hhs h hh; rw [e1, e2]; exact i.durLe
    · exact i.d2 r hm hlt h hh
  newest := by
    intro r rest he h hh hne
    injection he with e1 e2
    subst e1
    obtain ⟨e1, e2⟩ := hhs h hh
    left
    rw [(hch (by omega)).1, hnum]
  uhs := by
    intro hne
    by_cases hc : v ≠ pv ∨ t ≠ pt
    · obtain ⟨e, h, hh⟩ := hch hc
      obtain ⟨e1, e2⟩ := hhs h hh
      exact ⟨rd, List.mem_cons_self, by rw [e, hnum], h, hh, by rw [e1, e2]; exact i.prevLe⟩
    · rw [hsame hc] at hne
      obtain ⟨r, hm, hn, h, hh, hp⟩ := i.uhs hne
      exact ⟨r, List.mem_cons_of_mem _ hm, by rw [hsame hc]; exact hn, h, hh, hp⟩
  key := by
    intro h1 h2 h3
    rw [hsame (by omega)] at h3
    exact i.key h1 h2 h3

/-- the application writes Ready `w + 1` to stable storage -/
theorem Inv.write {t v pt pv u m : Nat} {H : List Ready} {w dT dV : Nat}
    (i : Inv t v pt pv u m H w dT dV) {rd : Ready} (hm : rd ∈ H) (hnum : rd.number = w + 1)
    {dT' dV' : Nat} (hnone : rd.hs = none → dT' = dT ∧ dV' = dV)
    (hsome : ∀ h, rd.hs = some h → dT' = h.term ∧ dV' = h.vote) :
    Inv t v pt pv u m H (w + 1) dT' dV' := by
  have hb := i.nums.mem hm
  cases hh : rd.hs with
  | none =>
    obtain ⟨e1, e2⟩ := hnone hh
    subst e1 e2
    refine { i with wr := by omega, d1 := ?_, d2 := ?_, newest := ?_ }
    · intro r hr hle h hrh
      rcases Nat.lt_or_ge r.number (w + 1) with hlt | hge
      · exact i.d1 r hr (by omega) h hrh
      · have := i.nums.unique hr hm (by omega)
        subst this
        rw [hh] at hrh; cases hrh
    · intro r hr hlt h hrh
      exact i.d2 r hr (by omega) h hrh
    · intro r rest he h hrh hne
      rcases i.newest r rest he h hrh hne with h1 | ⟨h1, h2⟩
      · exact .inl h1
      · have := (i.nums.mem (he ▸ List.mem_cons_self : r ∈ H)).2
        have := (he ▸ i.nums : NumsOk (r :: rest) m).head.1
        omega
  | some h0 =>
    obtain ⟨e1, e2⟩ := hsome h0 hh
    subst e1 e2
    have hd : ple dT dV h0.term h0.vote := i.d2 rd hm (by omega) h0 hh
    refine { i with wr := by omega, durLe := i.hsLe rd hm h0 hh, d1 := ?_, d2 := ?_, newest := ?_,
                    key := ?_ }
    · intro r hr hle h hrh
      exact i.ord r hr rd hm (by omega) h h0 hrh hh
    · intro r hr hlt h hrh
      exact i.ord rd hm r hr (by omega) h0 h hh hrh
    · intro r rest he h hrh hne
      rcases i.newest r rest he h hrh hne with h1 | ⟨h1, h2⟩
      · exact .inl h1
      · have := (he ▸ i.nums : NumsOk (r :: rest) m).head.1
        omega
    · intro h1 h2 h3
      obtain ⟨e1, e2⟩ := i.key h1 h2 h3
      subst e1 e2
      obtain ⟨e1, e2⟩ := ple_antisymm hd (i.hsLe rd hm h0 hh)
      exact ⟨e1.symm, e2.symm⟩

/-- `on_persist_ready(k)` for a `k` the application has written -/
theorem Inv.persisted {t v pt pv u m : Nat} {H : List Ready} {w dT dV : Nat}
    (i : Inv t v pt pv u m H w dT dV) {k : Nat} (hk : k ≤ w) :
    Inv t v pt pv (if u ≤ k then 0 else u) m H w dT dV := by
  by_cases hc : u ≤ k
  · rw [if_pos hc]
    refine { i with uhnLe := Nat.zero_le _, newest := ?_, uhs := fun h => absurd rfl h, key := ?_ }
    · intro r rest he h hrh hne
      right
      refine ⟨rfl, ?_⟩
      have hhead := (he ▸ i.nums : NumsOk (r :: rest) m).head.1
      have := i.wr
      rcases i.newest r rest he h hrh hne with h1 | ⟨_, h2⟩
      · omega
      · exact h2
    · intro h1 h2 _
      by_cases hu : u = 0
      · exact i.key h1 h2 hu
      · obtain ⟨r, hm, hn, h, hh, hp⟩ := i.uhs hu
        subst h1 h2
        obtain ⟨e1, e2⟩ := ple_antisymm hp (i.hsLe r hm h hh)
        have h1 := i.d1 r hm (by omega) h hh
        rw [← e1, ← e2] at h1
        obtain ⟨e3, e4⟩ := ple_antisymm h1 i.durLe
        exact ⟨e3.symm, e4.symm⟩
  · rw [if_neg hc]; exact i

/-- `commit_ready(rd)` of the newest Ready -/
theorem Inv.commit {t v pt pv u m : Nat} {H : List Ready} {w dT dV : Nat}
    (i : Inv t v pt pv u m H w dT dV) {rd : Ready} {rest : List Ready} (hH : H = rd :: rest)
    {pt' pv' : Nat} (hnone : rd.hs = none → pt' = pt ∧ pv' = pv)
    (hsome : ∀ h, rd.hs = some h → pt' = h.term ∧ pv' = h.vote) :
    Inv t v pt' pv' u m H w dT dV := by
  have hm : rd ∈ H := hH ▸ List.mem_cons_self
  cases hh : rd.hs with
  | none =>
    obtain ⟨e1, e2⟩ := hnone hh
    subst e1 e2
    exact i
  | some h0 =>
    obtain ⟨e1, e2⟩ := hsome h0 hh
    subst e1 e2
    by_cases hsame : h0.term = pt ∧ h0.vote = pv
    · obtain ⟨e1, e2⟩ := hsame
      rw [e1, e2]; exact i
    · have hnew := i.newest rd rest hH h0 hh (by omega)
      have hhead := (hH ▸ i.nums : NumsOk (rd :: rest) m).head
      refine { i with prevLe := i.hsLe rd hm h0 hh, newest := ?_, uhs := ?_, key := ?_ }
      · intro r rest' he h hrh hne
        rw [hH] at he
        injection he with e1 _
        subst e1
        rw [hh] at hrh; cases hrh
        omega
      · intro hu
        rcases hnew with h1 | ⟨h1, _⟩
        · exact ⟨rd, hm, h1.symm, h0, hh, ple_refl _ _⟩
        · exact absurd h1 hu
      · intro h1 h2 h3
        rcases hnew with h4 | ⟨_, h4⟩
        · omega
        · have h5 := i.d1 rd hm (by omega) h0 hh
          rw [← h1, ← h2] at h5
          obtain ⟨e3, e4⟩ := ple_antisymm h5 i.durLe
          exact ⟨e3.symm, e4.symm⟩

/-! ### what the `RawNodeM` calls do to the fields the invariant reads -/

open RawNodeM

/-- the fields C06b reads are untouched -/
structure Fr (n n' : RawNodeM) : Prop where
  term : n'.term = n.term
  vote : n'.vote = n.vote
  role : n'.role = n.role
  pterm : n'.prevHs.term = n.prevHs.term
  pvote : n'.prevHs.vote = n.prevHs.vote
  uhn : n'.unpersistedHsNumber = n.unpersistedHsNumber
  maxNumber : n'.maxNumber = n.maxNumber
  store : n'.log.store = n.log.store

theorem Fr.refl (n : RawNodeM) : Fr n n := ⟨rfl, rfl, rfl, rfl, rfl, rfl, rfl, rfl⟩

theorem Fr.trans {a b c : RawNodeM} (h1 : Fr a b) (h2 : Fr b c) : Fr a c :=
  ⟨h2.term.trans h1.term, h2.vote.trans h1.vote, h2.role.trans h1.role, h2.pterm.trans h1.pterm,
    h2.pvote.trans h1.pvote, h2.uhn.trans h1.uhn, h2.maxNumber.trans h1.maxNumber,
    h2.store.trans h1.store⟩

/-! #### the `RaftLog` operations never touch the storage -/

theorem commitTo_store {l l' : RaftLog} {i : Nat} (h : l.commitTo i = .ok l') :
    l'.store = l.store := by
  unfold RaftLog.commitTo at h
  repeat' (split at h)
  all_goals first | (injection h with h; subst h; rfl) | cases h

theorem appliedTo_store {l l' : RaftLog} {i : Nat} (h : l.appliedTo i = .ok l') :
    l'.store = l.store := by
  unfold RaftLog.appliedTo at h
  repeat' (split at h)
  all_goals first | (injection h with h; subst h; rfl) | cases h

theorem append_store {l l' : RaftLog} {ents : List Entry} {k : Nat}
    (h : l.append ents = .ok (l', k)) : l'.store = l.store := by
  unfold RaftLog.append at h
  repeat' (split at h)
  all_goals first
    | (injection h with h; injection h with h _; subst h; rfl)
    | cases h

theorem restore_store {l l' : RaftLog} {sn : Snapshot} (h : l.restore sn = .ok l') :
    l'.store = l.store := by
  unfold RaftLog.restore at h
  repeat' (split at h)
  all_goals first | (injection h with h; subst h; rfl) | cases h

theorem stableSnap_store {l l' : RaftLog} {i : Nat} (h : l.stableSnap i = .ok l') :
    l'.store = l.store := by
  unfold RaftLog.stableSnap at h
  repeat' (split at h)
  all_goals first | (injection h with h; subst h; rfl) | cases h

theorem stableEntries_store {l l' : RaftLog} {i t : Nat} (h : l.stableEntries i t = .ok l') :
    l'.store = l.store := by
  unfold RaftLog.stableEntries at h
  repeat' (split at h)
  all_goals first | (injection h with h; subst h; rfl) | cases h

theorem maybePersist_store {l l' : RaftLog} {i t : Nat} {b : Bool}
    (h : l.maybePersist i t = .ok (l', b)) : l'.store = l.store := by
  unfold RaftLog.maybePersist at h
  simp only [] at h
  repeat' (split at h)
  all_goals first
    | (injection h with h; injection h with h _; subst h; rfl)
    | cases h

theorem maybePersistSnap_store {l l' : RaftLog} {i : Nat} {b : Bool}
    (h : l.maybePersistSnap i = .ok (l', b)) : l'.store = l.store := by
  unfold RaftLog.maybePersistSnap at h
  repeat' (split at h)
  all_goals first
    | (injection h with h; injection h with h _; subst h; rfl)
    | cases h

theorem applyLogOp_store {l l' : RaftLog} {op : LogOp} (h : applyLogOp l op = .ok l') :
    l'.store = l.store := by
  cases op with
  | restore sn => exact restore_store h
  | commitTo i => exact commitTo_store h
  | tappend ents =>
    unfold applyLogOp at h
    cases ents with
    | nil => injection h with h; subst h; rfl
    | cons e0 es =>
      simp only [] at h
      cases ha : l.append (e0 :: es) with
      | ok p =>
        obtain ⟨l1, k⟩ := p
        rw [ha] at h
        simp only [] at h
        injection h with h
        have := append_store ha
        subst h
        split <;> exact this
      | err e => rw [ha] at h; cases h
      | panic s => rw [ha] at h; cases h

theorem applyLogOps_store {l l' : RaftLog} {ops : List LogOp} (h : applyLogOps l ops = .ok l') :
    l'.store = l.store := by
  induction ops generalizing l with
  | nil => unfold applyLogOps at h; injection h with h; subst h; rfl
  | cons op ops ih =>
    unfold applyLogOps at h
    cases ho : applyLogOp l op with
    | ok l1 => rw [ho] at h; exact (ih h).trans (applyLogOp_store ho)
    | err e => rw [ho] at h; cases h
    | panic s => rw [ho] at h; cases h

/-! #### the calls -/

/-- `env`: term, vote, role as given; nothing else of what C06b reads -/
theorem env_shape {n n' : RawNodeM} {e : EnvEffect} (h : n.env e = .ok n') :
    n'.term = e.term ∧ n'.vote = e.vote ∧ n'.role = e.role ∧ n'.prevHs = n.prevHs ∧
    n'.unpersistedHsNumber = n.unpersistedHsNumber ∧ n'.maxNumber = n.maxNumber ∧
    n'.log.store = n.log.store := by
  unfold RawNodeM.env at h
  cases ha : applyLogOps n.log e.ops with
  | ok l =>
    simp only [ha] at h; injection h with h; subst h
    refine ⟨rfl, rfl, rfl, rfl, rfl, rfl, ?_⟩
    show l.store = n.log.store
    exact applyLogOps_store ha
  | err e => simp only [ha] at h; cases h
  | panic s => simp only [ha] at h; cases h

theorem genLightReady_fr {n n' : RawNodeM} {l : LightReady} (h : n.genLightReady = .ok (n', l)) :
    Fr n n' ∧ l.messages = n.msgs := by
  obtain ⟨_, _, hl, hn, _⟩ := genLightReady_ok h
  subst hn hl; exact ⟨⟨rfl, rfl, rfl, rfl, rfl, rfl, rfl, rfl⟩, rfl⟩

/-- `ready()`: the number, the hard state, `is_persisted_msg`, the new bookkeeping -/
theorem ready_shape {n n' : RawNodeM} {rd : Ready} (h : n.ready = .ok (n', rd)) :
    n'.term = n.term ∧ n'.vote = n.vote ∧ n'.role = n.role ∧ n'.prevHs = n.prevHs ∧
    n'.log = n.log ∧ n'.maxNumber = n.maxNumber + 1 ∧ n'.unpersistedHsNumber = n.readyUhn ∧
    rd.number = n.maxNumber + 1 ∧
    rd.hs = (if n.readyHsChanged then some n.hardState else none) ∧
    rd.isPersistedMsg = (decide (n.role ≠ ROLE_LEADER) || decide (n.readyUhn ≠ 0)) ∧
    rd.light.messages = n.msgs := by
  obtain ⟨recs, csi, n2, light, _, _, hg, hn', hrd⟩ := ready_ok h
  obtain ⟨_, _, hl, hn2, _⟩ := genLightReady_ok hg
  subst hn' hrd hn2 hl
  exact ⟨rfl, rfl, rfl, rfl, rfl, rfl, rfl, rfl, rfl, rfl, rfl⟩

/-- the new `unpersisted_hs_number`, case by case -/
theorem readyUhn_cases (n : RawNodeM) :
    ((n.vote ≠ n.prevHs.vote ∨ n.term ≠ n.prevHs.term) →
      n.readyUhn = n.maxNumber + 1 ∧ n.readyHsChanged = true) ∧
    (¬ (n.vote ≠ n.prevHs.vote ∨ n.term ≠ n.prevHs.term) → n.readyUhn = n.unpersistedHsNumber) := by
  constructor
  · intro hc
    have h1 := (readyTv_iff n).2 hc
    have h2 := readyTv_changed n h1
    unfold readyUhn
    rw [h1, h2]
    exact ⟨rfl, rfl⟩
  · intro hc
    have h1 : n.readyTv = false := by
      cases hb : n.readyTv with
      | false => rfl
      | true => exact absurd ((readyTv_iff n).1 hb) hc
    unfold readyUhn
    rw [h1, Bool.and_false]
    rfl

/-- `commit_ready`: `prev_hs` (and `prev_ss`, the unstable part of the log) only -/
theorem commitReady_shape {n n' : RawNodeM} {rd : Ready} (h : n.commitReady rd = .ok n') :
    n'.term = n.term ∧ n'.vote = n.vote ∧ n'.role = n.role ∧ n'.prevHs = rd.hs.getD n.prevHs ∧
    n'.unpersistedHsNumber = n.unpersistedHsNumber ∧ n'.maxNumber = n.maxNumber ∧
    n'.log.store = n.log.store := by
  unfold commitReady at h
  simp only [] at h
  split at h
  · cases h
  · rename_i rec _
    split at h
    · cases h
    · cases hs : rec.snapshot with
      | none =>
        simp only [hs] at h
        cases hl : rec.lastEntry with
        | none =>
          simp only [hl] at h
          injection h with h; subst h
          exact ⟨rfl, rfl, rfl, rfl, rfl, rfl, rfl⟩
        | some p =>
          obtain ⟨i, t⟩ := p
          simp only [hl] at h
          cases h2 : n.log.stableEntries i t with
          | ok l2 =>
            simp only [h2] at h
            injection h with h; subst h
            exact ⟨rfl, rfl, rfl, rfl, rfl, rfl, stableEntries_store h2⟩
          | err e => simp only [h2] at h; cases h
          | panic s => simp only [h2] at h; cases h
      | some q =>
        obtain ⟨si, st⟩ := q
        simp only [hs] at h
        cases h1 : n.log.stableSnap si with
        | ok l1 =>
          simp only [h1] at h
          cases hl : rec.lastEntry with
          | none =>
            simp only [hl] at h
            injection h with h; subst h
            exact ⟨rfl, rfl, rfl, rfl, rfl, rfl, stableSnap_store h1⟩
          | some p =>
            obtain ⟨i, t⟩ := p
            simp only [hl] at h
            cases h2 : l1.stableEntries i t with
            | ok l2 =>
              simp only [h2] at h
              injection h with h; subst h
              exact ⟨rfl, rfl, rfl, rfl, rfl, rfl, (stableEntries_store h2).trans (stableSnap_store h1)⟩
            | err e => simp only [h2] at h; cases h
            | panic s => simp only [h2] at h; cases h
        | err e => simp only [h1] at h; cases h
        | panic s => simp only [h1] at h; cases h

theorem onPersistSnap_fr {n n' : RawNodeM} {i : Nat} (h : n.onPersistSnap i = .ok n') :
    Fr n n' := by
  unfold onPersistSnap at h
  cases hm : n.log.maybePersistSnap i with
  | ok p =>
    obtain ⟨l, b⟩ := p
    simp only [hm] at h
    injection h with h; subst h
    exact ⟨rfl, rfl, rfl, rfl, rfl, rfl, rfl, maybePersistSnap_store hm⟩
  | err e => simp only [hm] at h; cases h
  | panic s => simp only [hm] at h; cases h

theorem onPersistEntries_fr {n n' : RawNodeM} {i t : Nat} {eff : Effect}
    (h : n.onPersistEntries i t eff = .ok n') : Fr n n' := by
  unfold onPersistEntries at h
  cases hm : n.log.maybePersist i t with
  | ok p =>
    obtain ⟨l, b⟩ := p
    simp only [hm] at h
    have hs := maybePersist_store hm
    split at h
    · cases hc : l.commitTo eff.commit with
      | ok l' =>
        simp only [hc] at h
        injection h with h; subst h
        exact ⟨rfl, rfl, rfl, rfl, rfl, rfl, rfl, (commitTo_store hc).trans hs⟩
      | err e => simp only [hc] at h; cases h
      | panic s => simp only [hc] at h; cases h
    · injection h with h; subst h
      exact ⟨rfl, rfl, rfl, rfl, rfl, rfl, rfl, hs⟩
  | err e => simp only [hm] at h; cases h
  | panic s => simp only [hm] at h; cases h

/-- `on_persist_ready(k)`: resets `unpersisted_hs_number` when it is `≤ k` -/
theorem onPersistReady_shape {n n' : RawNodeM} {k : Nat} {eff : Effect}
    (h : n.onPersistReady k eff = .ok n') :
    n'.term = n.term ∧ n'.vote = n.vote ∧ n'.role = n.role ∧ n'.prevHs.term = n.prevHs.term ∧
    n'.prevHs.vote = n.prevHs.vote ∧
    n'.unpersistedHsNumber = (if n.unpersistedHsNumber ≤ k then 0 else n.unpersistedHsNumber) ∧
    n'.maxNumber = n.maxNumber ∧ n'.log.store = n.log.store := by
  unfold onPersistReady at h
  rw [popRecords_eq] at h
  simp only [] at h
  generalize hn1 : ({ n with
      unpersistedHsNumber := if n.unpersistedHsNumber ≤ k then 0 else n.unpersistedHsNumber,
      records := n.records.dropWhile (fun r => decide (r.number ≤ k)) } : RawNodeM) = n1 at h
  suffices hf : Fr n1 n' by
    subst hn1
    exact ⟨hf.term, hf.vote, hf.role, hf.pterm, hf.pvote, hf.uhn, hf.maxNumber, hf.store⟩
  generalize persistTarget (n.records.takeWhile (fun r => decide (r.number ≤ k))) (0, 0, 0) = tgt at h
  obtain ⟨idx, tm, sidx⟩ := tgt
  simp only [] at h
  have step2 : ∀ n2 : RawNodeM, Fr n1 n2 →
      (if idx ≠ 0 then n2.onPersistEntries idx tm eff else Res.ok n2) = .ok n' → Fr n1 n' := by
    intro n2 f2 h2
    by_cases hi : idx ≠ 0
    · rw [if_pos hi] at h2
      exact f2.trans (onPersistEntries_fr h2)
    · rw [if_neg hi] at h2
      injection h2 with h2; subst h2
      exact f2
  by_cases hsn : sidx ≠ 0
  · rw [if_pos hsn] at h
    cases hp : n1.onPersistSnap sidx with
    | ok n2 => rw [hp] at h; exact step2 n2 (onPersistSnap_fr hp) h
    | err e => rw [hp] at h; cases h
    | panic s => rw [hp] at h; cases h
  · rw [if_neg hsn] at h
    exact step2 n1 (Fr.refl _) h

theorem commitApply_fr {n n' : RawNodeM} {a : Nat} {eff : Effect}
    (h : n.commitApply a eff = .ok n') : Fr n n' := by
  unfold commitApply at h
  cases ha : n.log.appliedTo a with
  | ok l =>
    simp only [ha] at h
    have hs := appliedTo_store ha
    split at h
    · cases hp : l.append eff.appended with
      | ok p =>
        obtain ⟨l', k⟩ := p
        simp only [hp] at h
        injection h with h; subst h
        exact ⟨rfl, rfl, rfl, rfl, rfl, rfl, rfl, (append_store hp).trans hs⟩
      | err e => simp only [hp] at h; cases h
      | panic s => simp only [hp] at h; cases h
    · injection h with h; subst h
      exact ⟨rfl, rfl, rfl, rfl, rfl, rfl, rfl, hs⟩
  | err e => simp only [ha] at h; cases h
  | panic s => simp only [ha] at h; cases h

/-- `advance_append` in pieces, with what its assertions establish: a non-leader hands out no
messages, and on return `prev_hs` is the current hard state -/
theorem advanceAppend_shape {n n' : RawNodeM} {rd : Ready} {eff : Effect} {light : LightReady}
    (h : n.advanceAppend rd eff = .ok (n', light)) :
    ∃ n1 n2 n3 l3, n.commitReady rd = .ok n1 ∧ n1.onPersistReady n1.maxNumber eff = .ok n2 ∧
      n2.genLightReady = .ok (n3, l3) ∧ light.messages = l3.messages ∧
      (n3.role = ROLE_LEADER ∨ l3.messages = []) ∧ Fr n3 n' ∧
      n'.term = n'.prevHs.term ∧ n'.vote = n'.prevHs.vote := by
  unfold advanceAppend at h
  cases h1 : n.commitReady rd with
  | ok n1 =>
    simp only [h1] at h
    cases h2 : n1.onPersistReady n1.maxNumber eff with
    | ok n2 =>
      simp only [h2] at h
      cases h3 : n2.genLightReady with
      | ok p =>
        obtain ⟨n3, l3⟩ := p
        simp only [h3] at h
        refine ⟨n1, n2, n3, l3, by first | rfl | exact h1, by first | rfl | exact h2,
          by first | rfl | exact h3, ?_⟩
        by_cases hr : n3.role ≠ ROLE_LEADER ∧ l3.messages ≠ []
        · rw [if_pos hr] at h; cases h
        · rw [if_neg hr] at h
          have hrole : n3.role = ROLE_LEADER ∨ l3.messages = [] := by
            by_cases h5 : n3.role = ROLE_LEADER
            · exact .inl h5
            · by_cases h6 : l3.messages = []
              · exact .inr h6
              · exact absurd ⟨h5, h6⟩ hr
          split at h
          · split at h
            · cases h
            · rename_i heq
              injection h with h; injection h with ha hb; subst ha hb
              have heq := Classical.not_not.1 heq
              refine ⟨rfl, hrole, ⟨rfl, rfl, rfl, rfl, rfl, rfl, rfl, rfl⟩, ?_, ?_⟩
              · exact congrArg HardState.term heq
              · exact congrArg HardState.vote heq
          · split at h
            · cases h
            · split at h
              · cases h
              · rename_i heq
                injection h with h; injection h with ha hb; subst ha hb
                have heq := Classical.not_not.1 heq
                refine ⟨rfl, hrole, Fr.refl _, ?_, ?_⟩
                · exact congrArg HardState.term heq
                · exact congrArg HardState.vote heq
      | err e => simp only [h3] at h; cases h
      | panic s => simp only [h3] at h; cases h
    | err e => simp only [h2] at h; cases h
    | panic s => simp only [h2] at h; cases h
  | err e => simp only [h1] at h; cases h
  | panic s => simp only [h1] at h; cases h

/-! #### the storage write -/

theorem storeAppend_hardState {s s' : MemStorage} {ents : List Entry}
    (h : s.append ents = .ok s') : s'.hardState = s.hardState := by
  unfold MemStorage.append at h
  cases ents with
  | nil => injection h with h; subst h; rfl
  | cons e0 es =>
    simp only [] at h
    by_cases h1 : e0.index < s.firstIndex
    · rw [if_pos h1] at h; cases h
    · rw [if_neg h1] at h
      by_cases h2 : s.lastIndex + 1 < e0.index
      · rw [if_pos h2] at h; cases h
      · rw [if_neg h2] at h
        by_cases h3 : s.entries.length < e0.index - s.firstIndex
        · rw [if_pos h3] at h; cases h
        · rw [if_neg h3] at h; injection h with h; subst h; rfl

/-- `storageWrite rd`: only the storage changes; the stored hard state becomes `rd.hs` when the
Ready carries one; otherwise its vote is kept and its term is kept or — `MemStorage::apply_snapshot`
storage.rs:250 — raised to the term of the snapshot of the Ready -/
theorem storageWrite_shape {n n' : RawNodeM} {rd : Ready} (h : n.storageWrite rd = .ok n') :
    Fr n { n' with log := { n'.log with store := n.log.store } } ∧
    (∀ hs, rd.hs = some hs → n'.log.store.hardState = hs) ∧
    (rd.hs = none → n'.log.store.hardState.vote = n.log.store.hardState.vote ∧
      ((rd.snapshot = none ∧ n'.log.store.hardState.term = n.log.store.hardState.term) ∨
        ∃ sn, rd.snapshot = some sn ∧ n'.log.store.hardState.term =
          max n.log.store.hardState.term sn.metadata.term)) := by
  unfold storageWrite at h
  simp only [] at h
  cases hsn : rd.snapshot with
  | none =>
    simp only [hsn] at h
    cases h2 : n.log.store.append rd.entries with
    | ok st2 =>
      simp only [h2] at h
      injection h with h; subst h
      have := storeAppend_hardState h2
      refine ⟨⟨rfl, rfl, rfl, rfl, rfl, rfl, rfl, rfl⟩, ?_, ?_⟩
      · intro hs hh; simp only [hh]; rfl
      · intro hh; rw [hh]
        exact ⟨congrArg HardState.vote this, .inl ⟨rfl, congrArg HardState.term this⟩⟩
    | err e => simp only [h2] at h; cases h
    | panic p => simp only [h2] at h; cases h
  | some sn =>
    simp only [hsn] at h
    cases h1 : n.log.store.applySnapshot sn with
    | ok st1 =>
      simp only [h1] at h
      cases h2 : st1.append rd.entries with
      | ok st2 =>
        simp only [h2] at h
        injection h with h; subst h
        have e2 := storeAppend_hardState h2
        have e1 : st1.hardState.vote = n.log.store.hardState.vote ∧
            st1.hardState.term = max n.log.store.hardState.term sn.metadata.term := by
          unfold MemStorage.applySnapshot at h1
          simp only [] at h1
          split at h1
          · cases h1
          · injection h1 with h1; subst h1; exact ⟨rfl, rfl⟩
        refine ⟨⟨rfl, rfl, rfl, rfl, rfl, rfl, rfl, rfl⟩, ?_, ?_⟩
        · intro hs hh; simp only [hh]; rfl
        · intro hh; rw [hh]
          exact ⟨(congrArg HardState.vote e2).trans e1.1,
            .inr ⟨sn, rfl, (congrArg HardState.term e2).trans e1.2⟩⟩
      | err e => simp only [h2] at h; cases h
      | panic p => simp only [h2] at h; cases h
    | err e => simp only [h1] at h; cases h
    | panic p => simp only [h1] at h; cases h

/-- `MemStorage::compact` leaves the hard state alone -/
theorem storeCompact_hardState {s s' : MemStorage} {k : Nat} (h : s.compact k = .ok s') :
    s'.hardState = s.hardState := by
  unfold MemStorage.compact at h
  by_cases h1 : k ≤ s.firstIndex
  · rw [if_pos h1] at h; injection h with h; subst h; rfl
  · rw [if_neg h1] at h
    by_cases h2 : s.lastIndex + 1 < k
    · rw [if_pos h2] at h; cases h
    · rw [if_neg h2] at h
      cases hh : s.entries.head? with
      | none => simp only [hh] at h; injection h with h; subst h; rfl
      | some e0 =>
        simp only [hh] at h
        by_cases h3 : k < e0.index
        · rw [if_pos h3] at h; cases h
        · rw [if_neg h3] at h
          by_cases h4 : s.entries.length < k - e0.index
          · rw [if_pos h4] at h; cases h
          · rw [if_neg h4] at h; injection h with h; subst h; rfl

theorem compactStore_shape {l l' : RaftLog} {k : Nat} (h : l.compactStore k = .ok l') :
    l'.store.hardState = l.store.hardState := by
  unfold RaftLog.compactStore at h
  cases hc : l.store.compact k with
  | ok st => simp only [hc] at h; injection h with h; subst h; exact storeCompact_hardState hc
  | err e => simp only [hc] at h; cases h
  | panic s => simp only [hc] at h; cases h

/-- `RawNode::new`: term and vote are the stored ones, `prev_hs` agrees, no Ready yet -/
theorem new_shape {st : MemStorage} {limit applied maxc : Nat} {n : RawNodeM}
    (h : RawNodeM.new st limit applied maxc = .ok n) :
    n.term = st.hardState.term ∧ n.vote = st.hardState.vote ∧ n.prevHs.term = n.term ∧
    n.prevHs.vote = n.vote ∧ n.unpersistedHsNumber = 0 ∧ n.maxNumber = 0 ∧ n.records = [] ∧
    n.role = ROLE_FOLLOWER ∧ n.log.store = st := by
  unfold RawNodeM.new at h
  cases hl : RaftLog.new st limit with
  | ok log =>
    have hst : log.store = st := by
      unfold RaftLog.new at hl
      split at hl
      · cases hl
      · injection hl with hl; subst hl; rfl
    simp only [hl] at h
    by_cases hd : st.hardState ≠ {}
    · rw [if_pos hd] at h
      by_cases hr : st.hardState.commit < log.committed ∨ log.lastIndex < st.hardState.commit
      · rw [if_pos hr] at h; cases h
      · rw [if_neg hr] at h
        simp only [] at h
        injection h with h; subst h
        refine ⟨rfl, rfl, rfl, rfl, rfl, rfl, rfl, rfl, ?_⟩
        show (if 0 < applied then _ else _ : RaftLog).store = st
        split <;> exact hst
    · rw [if_neg hd] at h
      simp only [] at h
      injection h with h; subst h
      have hd := Classical.not_not.1 hd
      refine ⟨by rw [hd], by rw [hd], rfl, rfl, rfl, rfl, rfl, rfl, ?_⟩
      show (if 0 < applied then _ else _ : RaftLog).store = st
      split <;> exact hst
  | err e => simp only [hl] at h; cases h
  | panic s => simp only [hl] at h; cases h

end C06
end RaftModel
