import RaftProofs.ClusterSnap5L

/-!
[Copy of `ClusterSnap2M.lean` for the development `Snap5` (with `request_snapshot`): `NoReq` is replaced by
`ReqOk`, `SnapCase.restored` is widened — see `ClusterSnap5A.lean`, `RaftProps/C01i.lean`.]

Commit safety of `ClusterSem` with compaction and snapshots, part 2M (as `ClusterSnapL`): **the
components of the main induction** (`Sm`, with one more component `pst`), and the facts about leaders'
logs and commit events that follow from the components at earlier points (`SAll`).
-/
namespace RaftModel
namespace Cluster
namespace Snap5
open Node Raft Raft.CC RaftProps.C02 RaftProps.C05 Snap

variable {cfg : JointConfig} {c0 : Nat} {h : List Sys}

/-- `L` is the ghost (uncompacted) log of the leader of term `t` at some point `h[m]`, `m ≤ N` -/
def LeaderLog (h : List Sys) (c0 N t : Nat) (L : LLog) : Prop :=
  ∃ (m : Nat) (s : Sys) (l : Nat) (st : NState), m ≤ N ∧ h[m]? = some s ∧ s.node l = some st ∧
    st.raft.state = .leader ∧ st.raft.term = t ∧ L = FL h c0 st

theorem LeaderLog.mono {h : List Sys} {c0 N N' t : Nat} {L : LLog} (hl : LeaderLog h c0 N t L)
    (hle : N ≤ N') : LeaderLog h c0 N' t L := by
  obtain ⟨m, s, l, st, h1, h2⟩ := hl
  exact ⟨m, s, l, st, Nat.le_trans h1 hle, h2⟩

/-- the prefix up to `cm` of `g` is covered by a past commit event of a term at most `term` -/
def Covered (h : List Sys) (c0 m cm term : Nat) (g : LLog) : Prop :=
  cm ≤ c0 ∨ ∃ E : Ev, E.ok h ∧ E.nE < m ∧ cm ≤ E.c ∧ E.t ≤ term ∧ EqUpTo g (EvF h c0 E) cm

/-- what an accepting append response promises about the log `g` of its sender -/
def Promise (h : List Sys) (c0 m : Nat) (a : Message) (g : LLog) : Prop :=
  ∃ L, LeaderLog h c0 m a.term L ∧ a.index ≤ L.lastIndex ∧ EqUpTo g L a.index

structure Sm (h : List Sys) (c0 m : Nat) (s : Sys) : Prop where
  lc : ∀ E : Ev, E.ok h → ∀ l st, s.node l = some st → st.raft.state = .leader →
    E.t < st.raft.term → Has (FL h c0 st) E.c E.t
  retm : ∀ E : Ev, E.ok h → ∀ v st, s.node v = some st → AckedMem s m E v st →
    Has (FL h c0 st) E.c E.t
  rets : ∀ E : Ev, E.ok h → ∀ v st, s.node v = some st → AckedDur s m E v →
    Has (FS h c0 st) E.c E.t
  a2m : ∀ v st, s.node v = some st → ∀ a, (a ∈ s.net ∨ a ∈ st.raft.msgs) → isAck a → a.frm = v →
    c0 < a.index → a.term = st.raft.term → Promise h c0 m a (FL h c0 st)
  a2s : ∀ v st, s.node v = some st → ∀ a ∈ s.net, isAck a → a.frm = v → c0 < a.index →
    a.term = st.raft.raftLog.store.hardState.term →
    Promise h c0 m a (FS h c0 st)
  g1 : ∀ E : Ev, E.ok h → ∀ v st g, s.node v = some st → (g ∈ s.net ∨ g ∈ st.raft.msgs) →
    isGrant g → g.frm = v → E.t < g.term → AckedMem s m E v st → ¬ LedBy h m g.term →
    ∃ q ∈ s.net, q.msgType = .msgRequestVote ∧ q.frm = g.to ∧ q.term = g.term ∧ UpTo q E.c E.t
  nctm : ∀ v st, s.node v = some st →
    Covered h c0 m st.raft.raftLog.committed st.raft.term (FL h c0 st)
  ncts : ∀ v st, s.node v = some st →
    Covered h c0 m st.raft.raftLog.store.hardState.commit st.raft.raftLog.store.hardState.term
      (FS h c0 st)
  scm : ∀ v st, s.node v = some st →
    st.raft.raftLog.store.hardState.commit ≤ st.raft.raftLog.committed
  pst : ∀ v st, s.node v = some st → ∀ k, k ≤ st.raft.raftLog.persisted →
    (FL h c0 st).entryAt k = (FS h c0 st).entryAt k

/-- everything up to index `n` -/
def SAll (h : List Sys) (c0 n : Nat) : Prop := ∀ m s, m ≤ n → h[m]? = some s → Sm h c0 m s


/-- the log of a commit event is a leader's log -/
theorem Ev.leaderLog (H : Hyp2w cfg c0 h) {E : Ev} (hE : E.ok h) :
    LeaderLog h c0 (E.nE + 1) E.t (EvF h c0 E) ∧ Has (EvF h c0 E) E.c E.t ∧ c0 < E.c := by
  obtain ⟨a, b, sta, stb, ha, hb, hla, hlb, hs, ht, hc, _, hg, _, _, hc0, hh, _⟩ := Ev.facts H hE
  exact ⟨⟨E.nE + 1, b, E.l, stb, Nat.le_refl _, hb, hlb, hs, ht, hg⟩, hh, hc0⟩

/-- the end of a leader's ghost log is the end of its logical log -/
theorem fl_last (H : Hyp2w cfg c0 h) {n : Nat} {s : Sys} (hn : h[n]? = some s) {v : Nat}
    {st : NState} (hv : s.node v = some st) :
    (FL h c0 st).lastIndex = st.raft.raftLog.abs.lastIndex :=
  ((ghost_inv H n s hn).node v st hv).log.last

/-- two logs of the leader of one term hold the same entry wherever both reach -/
theorem ll_eq (H : Hyp2w cfg c0 h) {N N' t : Nat} {L L' : LLog} (h1 : LeaderLog h c0 N t L)
    (h2 : LeaderLog h c0 N' t L') {k : Nat} (hk : k ≤ L.lastIndex) (hk' : k ≤ L'.lastIndex) :
    L.entryAt k = L'.entryAt k := by
  obtain ⟨m, s, l, st, _, a2, a3, a4, a5, rfl⟩ := h1
  obtain ⟨m', s', l', st', _, b2, b3, b4, b5, rfl⟩ := h2
  exact leader_flogs_eq H a2 b2 a3 b3 a4 b4 a5 b5 (by rw [← fl_last H a2 a3]; exact hk)
    (by rw [← fl_last H b2 b3]; exact hk')

/-- a node's log that holds an entry of a leader's log at `c` equals that log up to `c` -/
theorem eq_ll (H : Hyp2w cfg c0 h) {n : Nat} {s : Sys} (hn : h[n]? = some s) {v : Nat}
    {st : NState} (hv : s.node v = some st) {N t : Nat} {L : LLog} (hL : LeaderLog h c0 N t L)
    {c τ : Nat} (h1 : Has (FL h c0 st) c τ) (h2 : Has L c τ) :
    EqUpTo (FL h c0 st) L c := by
  obtain ⟨m', s', l', st', _, b2, b3, _, _, rfl⟩ := hL
  obtain ⟨e1, he1, ht1⟩ := h1
  obtain ⟨e2, he2, ht2⟩ := h2
  exact flogs_eq_below H hn b2 hv b3 he1 he2 (ht1.trans ht2.symm)

/-- **a leader of the event's term or a later one holds the committed entry** (for the event's own
term: once its log reaches the index) -/
theorem ll_has (H : Hyp2w cfg c0 h) {n : Nat} (S : SAll h c0 n) {τ : Nat} {L : LLog}
    (hL : LeaderLog h c0 n τ L) {E : Ev} (hE : E.ok h) (hle : E.t ≤ τ)
    (hreach : τ = E.t → E.c ≤ L.lastIndex) : Has L E.c E.t := by
  by_cases hlt : E.t < τ
  · obtain ⟨m, s, l, st, a1, a2, a3, a4, a5, rfl⟩ := hL
    exact (S m s a1 a2).lc E hE l st a3 a4 (by rw [a5]; exact hlt)
  · have heq : τ = E.t := by omega
    subst heq
    obtain ⟨hEl, hEh, _⟩ := Ev.leaderLog H hE
    obtain ⟨e, he, het⟩ := hEh
    have := ll_eq H hL hEl (hreach rfl) ((EvF h c0 E).entryAt_lt he).2
    exact ⟨e, this.trans he, het⟩

/-- **the logs of two commit events agree**: the log of a past event `E0` holds the entry of any event
`E` that committed no more (`E.c ≤ E0.c`) — given, when `E0`'s term is the smaller one, that `E`'s term
has been led by now -/
theorem ctf (H : Hyp2w cfg c0 h) {n : Nat} (S : SAll h c0 n) {E0 E : Ev} (hE0 : E0.ok h)
    (hE : E.ok h) (hpast : E0.nE < n) (hc : E.c ≤ E0.c)
    (hled : E0.t < E.t → ∃ L, LeaderLog h c0 n E.t L) : Has (EvF h c0 E0) E.c E.t := by
  obtain ⟨hl0, hh0, _⟩ := Ev.leaderLog H hE0
  obtain ⟨e0, he0, _⟩ := id hh0
  have hl0' : LeaderLog h c0 n E0.t (EvF h c0 E0) := hl0.mono (by omega)
  by_cases h1 : E.t ≤ E0.t
  · exact ll_has H S hl0' hE h1 (fun _ => Nat.le_trans hc ((EvF h c0 E0).entryAt_lt he0).2)
  · obtain ⟨L, hL⟩ := hled (by omega)
    -- the leader of `E`'s term holds `E0`'s entry, hence `E0`'s log up to there
    have hLh0 : Has L E0.c E0.t := ll_has H S hL hE0 (by omega) (fun hc' => by omega)
    obtain ⟨eL, heL, hetL⟩ := hLh0
    have hreach : E.c ≤ L.lastIndex := Nat.le_trans hc (L.entryAt_lt heL).2
    have hLh : Has L E.c E.t := ll_has H S hL hE (Nat.le_refl _) (fun _ => hreach)
    obtain ⟨m, s, l, st, a1, a2, a3, a4, a5, rfl⟩ := hL
    have hq := eq_ll H a2 a3 hl0 ⟨eL, heL, hetL⟩ hh0
    exact Has.of_eq (hq E.c hc).symm hLh



/-- **the logs of two past commit events agree** up to the smaller commit index -/
theorem ev_agree_past (H : Hyp2w cfg c0 h) {n : Nat} (S : SAll h c0 n) {E1 E2 : Ev} (h1 : E1.ok h)
    (h2 : E2.ok h) (hp1 : E1.nE < n) (hp2 : E2.nE < n) (hle : E1.c ≤ E2.c) :
    EqUpTo (EvF h c0 E1) (EvF h c0 E2) E1.c := by
  obtain ⟨l1, hh1, _⟩ := Ev.leaderLog H h1
  obtain ⟨l2, _, _⟩ := Ev.leaderLog H h2
  have := ctf H S h2 h1 hp2 hle (fun _ => ⟨EvF h c0 E1, l1.mono (by omega)⟩)
  obtain ⟨m, s, l, st, _, a2, a3, _, _, e⟩ := l1
  rw [e] at hh1 ⊢
  exact eq_ll H a2 a3 l2 hh1 this

/-- two covered prefixes agree -/
theorem covered_agree (H : Hyp2w cfg c0 h) {n : Nat} (S : SAll h c0 n) {m1 m2 c1 c2 t1 t2 : Nat}
    {g1 g2 : LLog} (hs1 : g1.snapIdx = c0) (hs2 : g2.snapIdx = c0)
    (h1 : Covered h c0 m1 c1 t1 g1) (h2 : Covered h c0 m2 c2 t2 g2) (hm1 : m1 ≤ n) (hm2 : m2 ≤ n) :
    ∀ k, k ≤ c1 → k ≤ c2 → g1.entryAt k = g2.entryAt k := by
  intro k hk1 hk2
  by_cases hk0 : k ≤ c0
  · unfold LLog.entryAt
    rw [if_pos (by rw [hs1]; exact hk0), if_pos (by rw [hs2]; exact hk0)]
  rcases h1 with c | ⟨E1, a1, a2, a3, _, a5⟩
  · omega
  rcases h2 with c | ⟨E2, b1, b2, b3, _, b5⟩
  · omega
  rw [a5 k hk1, b5 k hk2]
  rcases Nat.le_total E1.c E2.c with hle | hle
  · exact ev_agree_past H S a1 b1 (by omega) (by omega) hle k (by omega)
  · exact (ev_agree_past H S b1 a1 (by omega) (by omega) hle k (by omega)).symm

end Snap5
end Cluster
end RaftModel
