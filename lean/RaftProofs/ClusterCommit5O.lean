import RaftProofs.ClusterCommit5N
import RaftProofs.ClusterCommit5H

/-!
Cluster-level commit safety **with `batch_append`**, part 5O: the per-call relation `Gb` of a `call` /
`deliver` step with the transport as backing (`kstep_gb`), the matched tables are backed by the transport
in every state (`HypB.mokc`), **the leader's commit step** (`HypB.commit_step`), and the gateway from the
per-call layers to the cluster level (`call_factsB`, the counterpart of `call_facts` of
`ClusterCommitY.lean`) — all without `NoBatch`.
-/
namespace RaftModel
namespace ClusterB
open Node Raft Raft.CC Raft.CB Raft.Bt Cluster RaftProps.C02 RaftProps.C05

/-- the per-call relation of a `call` / `deliver` step, with the transport as backing -/
theorem kstep_gb {s : Sys} {i : Nat} {st st' : NState} {rnd : Option Nat} {op : NodeOp} {res : OpRes}
    (hm : MOKc s) (hsn : NoSnapNet s) (hi : s.node i = some st)
    (hop : appOp op = true ∨ ∃ m, op = .step m ∧ m ∈ s.net)
    (h : Node.call st rnd op = .ok (res, st')) :
    Gb (Anet s.net) st.raft (CV.opMsg op) st'.raft := by
  have hop' : op ≠ .drain ∧ ∀ m, op ≠ .rstep m := by
    rcases hop with h1 | ⟨m, h1, _⟩
    · constructor
      · intro hc; rw [hc] at h1; cases h1
      · intro m hc; rw [hc] at h1; cases h1
    · rw [h1]
      exact ⟨(by intro hc; cases hc), (by intro m' hc; cases hc)⟩
  refine call_gb (Anet s.net) Anet.anti st st' rnd op res (hm i st hi) hop' ?_ ?_ h
  · intro m hm'
    rcases hop with h1 | ⟨m', h1, h2⟩
    · rw [hm'] at h1; cases h1
    · rw [hm'] at h1; cases h1; exact hsn m h2
  · intro m hm' t hack
    rcases hop with h1 | ⟨m', h1, h2⟩
    · rw [hm'] at h1; cases h1
    · rw [hm'] at h1; cases h1
      exact ⟨m, h2, ⟨hack.1, hack.2.1⟩, rfl, hack.2.2, Nat.le_refl _⟩

theorem MOKc_kstepb {s s' : Sys} (hm : MOKc s) (hsn : NoSnapNet s)
    (hstep : KStep s s') : MOKc s' := by
  have other : ∀ (k : Nat) (stk : NState) (net' : List Message), (∀ x ∈ s.net, x ∈ net') →
      MOK (Anet net') stk.raft → ∀ j stj, j ≠ k → s.node j = some stj → MOK (Anet net') stj.raft :=
    fun k stk net' hsub _ j stj _ hj => (hm j stj hj).mono (fun _ _ _ => Anet.mono hsub)
  cases hstep with
  | call k st st' rnd op res h1 h2 _ _ h4 =>
    intro j stj hj
    have g := kstep_gb hm hsn h1 (.inl h2) h4
    by_cases hjk : j = k
    · subst hjk
      rw [node_setNode_self] at hj; cases hj
      exact g.mok
    · rw [node_setNode_ne s k j st' hjk] at hj
      exact hm j stj hj
  | deliver k st st' rnd m res h1 h2 _ h4 =>
    intro j stj hj
    have g := kstep_gb hm hsn h1 (.inr ⟨m, rfl, h2⟩) h4
    by_cases hjk : j = k
    · subst hjk
      rw [node_setNode_self] at hj; cases hj
      exact g.mok
    · rw [node_setNode_ne s k j st' hjk] at hj
      exact hm j stj hj
  | send k st st' h1 _ _ h3 =>
    intro j stj hj
    have hsub : ∀ x ∈ s.net, x ∈ s.net ++ st.raft.msgs := fun x hx => List.mem_append_left _ hx
    have hj' : (s.setNode k st').node j = some stj := hj
    by_cases hjk : j = k
    · subst hjk
      rw [node_setNode_self] at hj'; cases hj'
      have hf : st'.raft.state = st.raft.state ∧ st'.raft.prs = st.raft.prs ∧
          st'.raft.id = st.raft.id ∧ st'.raft.raftLog = st.raft.raftLog ∧
          st'.raft.term = st.raft.term := by
        unfold Node.call at h3
        simp only [applyOp] at h3
        cases h3; exact ⟨rfl, rfl, rfl, rfl, rfl⟩
      obtain ⟨f1, f2, f3, f4, f5⟩ := hf
      have h0 := (hm j st h1).mono (fun _ _ _ => Anet.mono (net' := s.net ++ st.raft.msgs) hsub)
      constructor
      rw [f1, f2, f3, f4, f5]
      exact h0.h
    · rw [node_setNode_ne s k j st' hjk] at hj'
      exact (hm j stj hj').mono (fun _ _ _ => Anet.mono hsub)
  | restart k st st' c rnd h1 _ h3 =>
    intro j stj hj
    by_cases hjk : j = k
    · subst hjk
      rw [node_setNode_self] at hj; cases hj
      have hb := CV.boot_booted c _ rnd st' h3
      exact ⟨fun hs => by rw [hb.state] at hs; cases hs⟩
    · rw [node_setNode_ne s k j st' hjk] at hj
      exact hm j stj hj


variable {cfg : JointConfig} {c0 : Nat} {h : List Sys}

/-- the matched tables are backed by the transport in every state -/
theorem HypB.mokc (H : HypB cfg h) : ∀ (n : Nat) (s : Sys), h[n]? = some s → MOKc s := by
  refine hist_induct h (fun _ s => MOKc s) (fun s h0 => MOKc.init (hist_init H.hist s h0)) ?_
  intro n a b ha hb ih
  exact MOKc_kstepb ih (H.nosnap a (mem_of_get ha)) (H.steps n a b ha hb)

/-- **the leader's commit step**: when a step moves the commit index of a node that is leader after
the step, the entry at the new commit index carries the leader's term, and a joint quorum of the
leader's voters has `matched` at least the new commit index, each of them accounted for: the leader
itself with `persisted`, or an accepting append response in the transport -/
theorem HypB.commit_step (H : HypB cfg h) (n : Nat) (a b : Sys)
    (ha : h[n]? = some a) (hb : h[n + 1]? = some b) (l : Nat) (sta stb : NState)
    (hla : a.node l = some sta) (hlb : b.node l = some stb) (hs : stb.raft.state = .leader)
    (hc : sta.raft.raftLog.committed < stb.raft.raftLog.committed) :
    stb.raft.raftLog.term stb.raft.raftLog.committed = .ok stb.raft.term ∧
    ∃ Q, IsJointQuorum cfg Q ∧ ∀ j ∈ Q,
      (j = l ∧ stb.raft.raftLog.committed ≤ stb.raft.raftLog.persisted) ∨
      Anet a.net j stb.raft.term stb.raft.raftLog.committed := by
  have hm := H.mokc n a ha
  have hsn := H.nosnap a (mem_of_get ha)
  have hfix := H.fix b (mem_of_get hb) l stb hlb
  obtain ⟨hid, _⟩ := ((hist_all H.hist).1 b (mem_of_get hb)).ids l stb hlb
  -- the relation of the step at node `l`
  have key : (∃ m, Gb (Anet a.net) sta.raft m stb.raft) ∨
      stb.raft.raftLog.committed = sta.raft.raftLog.committed ∨ stb.raft.state ≠ .leader := by
    cases H.steps n a b ha hb with
    | call k st st' rnd op res h1 h2 _ _ h4 =>
      by_cases hlk : l = k
      · subst hlk
        rw [node_setNode_self] at hlb; cases hlb
        rw [h1] at hla; cases hla
        exact .inl ⟨_, kstep_gb hm hsn h1 (.inl h2) h4⟩
      · rw [node_setNode_ne a k l st' hlk, hla] at hlb; cases hlb
        exact .inr (.inl rfl)
    | deliver k st st' rnd m res h1 h2 _ h4 =>
      by_cases hlk : l = k
      · subst hlk
        rw [node_setNode_self] at hlb; cases hlb
        rw [h1] at hla; cases hla
        exact .inl ⟨_, kstep_gb hm hsn h1 (.inr ⟨m, rfl, h2⟩) h4⟩
      · rw [node_setNode_ne a k l st' hlk, hla] at hlb; cases hlb
        exact .inr (.inl rfl)
    | send k st st' h1 _ _ h3 =>
      have hlb' : (a.setNode k st').node l = some stb := hlb
      by_cases hlk : l = k
      · subst hlk
        rw [node_setNode_self] at hlb'; cases hlb'
        rw [h1] at hla; cases hla
        right; left
        unfold Node.call at h3
        simp only [applyOp] at h3
        cases h3; rfl
      · rw [node_setNode_ne a k l st' hlk, hla] at hlb'; cases hlb'
        exact .inr (.inl rfl)
    | restart k st st' c rnd h1 _ h3 =>
      by_cases hlk : l = k
      · subst hlk
        rw [node_setNode_self] at hlb; cases hlb
        right; right
        rw [(CV.boot_booted c _ rnd stb h3).state]; intro hcc; cases hcc
      · rw [node_setNode_ne a k l st' hlk, hla] at hlb; cases hlb
        exact .inr (.inl rfl)
  rcases key with ⟨_, g⟩ | g | g
  · rcases g.lc hs with e | ⟨⟨Q, hQ, hQm⟩, hterm⟩
    · omega
    · refine ⟨hterm, Q, by rw [← hfix]; exact hQ, fun j hj => ?_⟩
      obtain ⟨x, hx, hle⟩ := hQm j hj
      rcases g.mok.h hs j x hx with d | ⟨d1, d2⟩ | d
      · omega
      · left; exact ⟨d1.trans hid, Nat.le_trans hle d2⟩
      · right; exact Anet.anti _ _ _ _ hle d
  · omega
  · exact absurd hs g

/-- the log half of `call_q`: how the call changed the logical log -/
structure QLb (a r : Raft) (m : Message) : Prop where
  l : LogRel a r m

/-- **everything the node-level layers say about one `call` / `deliver` step of the history**, batching
on or off: the relation `Gb` of the commit layer, the effect `LStepB` of the Log Matching layer with
batching, and how the logical log changed -/
theorem call_factsB (H : Hyp2wB cfg c0 h) {n : Nat} {a b : Sys} {i : Nat} {st st' : NState}
    {rnd : Option Nat} {op : NodeOp} {res : OpRes}
    (ha : h[n]? = some a) (hb : h[n + 1]? = some b) (hi : a.node i = some st)
    (hi' : b.node i = some st') (hnet : b.net = a.net)
    (hop : appOp op = true ∨ ∃ m, op = .step m ∧ m ∈ a.net ∧ m.to = i)
    (hc : ∀ j, op ≠ .compact j)
    (hcall : Node.call st rnd op = .ok (res, st')) :
    Gb (Anet a.net) st.raft (CV.opMsg op) st'.raft ∧ LStepB st.raft st'.raft (CV.opMsg op) ∧
    QLb st.raft st'.raft (CV.opMsg op) ∧ st.raft.id = i := by
  obtain ⟨s0, _, hall⟩ := H.inv_at
  have I := hall a (mem_of_get ha)
  have hsn := H.nosnap a (mem_of_get ha)
  have hop1 : appOp op = true ∨ ∃ m, op = .step m ∧ m ∈ a.net := by
    rcases hop with g | ⟨m, g1, g2, _⟩
    · exact .inl g
    · exact .inr ⟨m, g1, g2⟩
  have hop' := op_ok hop
  have hms : ∀ m, op = .step m → m.msgType ≠ .msgSnapshot := by
    intro m hm
    rcases hop1 with h1 | ⟨m', h1, h2⟩
    · rw [hm] at h1; cases h1
    · rw [hm] at h1; cases h1; exact hsn m h2
  have g := kstep_gb (H.toHypB.mokc n a ha) hsn hi hop1 hcall
  have hw : ∀ m, op = .step m → m.msgType = .msgAppend → MsgOk m := by
    intro m hm hty
    rcases hop1 with h1 | ⟨m', h1, h2⟩
    · rw [hm] at h1; cases h1
    · rw [hm] at h1; cases h1
      exact I.msgOk h2 hty
  have hp := (H.toHypB.prov0 ha hb hi hi' hnet hop hcall).2
  have hs1 := (H.shape a (mem_of_get ha) i st hi).1
  have hL := call_lstep_b st st' rnd op res (I.inv i st hi) hp hop' hw
    (fun j hj => absurd hj (hc j)) hcall
  have hq : LogRel st.raft st'.raft (CV.opMsg op) := by
    rcases call_stob st st' rnd op res (I.inv i st hi) hp hop' hw hms hc hs1 hcall with c | c
    · exact c.l
    · subst c
      exact .inl (stabilize_out (I.inv i st hi) hs1 hcall).2.2.1
  exact ⟨g, hL, ⟨hq⟩, (((hist_all H.hist).1 a (mem_of_get ha)).ids i st hi).1⟩

end ClusterB
end RaftModel
