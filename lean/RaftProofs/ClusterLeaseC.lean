import RaftProofs.ClusterLeaseB

/-!
Cluster-level lease theorem (C16, second half), helper lemmas part C: `LInv` through
`post_conf_change`, `restore`, the role arms of `step`, the term preamble, the vote arm, `step`,
`tick` and `apply_conf_change`.
-/
namespace RaftModel
namespace Raft
namespace LS
open VoteOb

/-! ### queueing one message -/

/-- `send` of any message but a `MsgTimeoutNow`, given what the queued message looks like -/
theorem send_linv {a r r' : Raft} {m x : Message} (h : LInv a m r) (hs : r.send x = .ok r')
    (hne : x.msgType ≠ .msgTimeoutNow) (he : Emit a m r.term (r.sendFill x)) : LInv a m r' := by
  rw [send_eq r r' x hs]
  refine ⟨h.id, h.tm, ?_, ?_, h.pc, h.ld⟩
  · intro y hy
    rcases List.mem_append.1 hy with g | g
    · exact h.msgs y g
    · rw [List.mem_singleton.1 g]; exact Or.inr he
  · rcases h.tn with hn | hn
    · left
      intro y hy ht
      rcases List.mem_append.1 hy with g | g
      · exact hn y g ht
      · rw [List.mem_singleton.1 g, sendFill_msgType] at ht
        exact absurd ht hne
    · exact Or.inr hn

/-- `send_timeout_now` while a transfer is pending, in a call stepping a `MsgTransferLeader` or a
`MsgAppendResponse` -/
theorem sendTimeoutNow_linv {a r r' : Raft} {m : Message} {to : Nat} (h : LInv a m r)
    (hta : isTA m) (hlt : r.leadTransferee ≠ none) (hs : r.sendTimeoutNow to = .ok r') :
    LInv a m r' := by
  unfold sendTimeoutNow at hs
  rw [send_eq r r' _ hs]
  refine ⟨h.id, h.tm, ?_, Or.inr ⟨hta, hlt⟩, h.pc, h.ld⟩
  intro y hy
  rcases List.mem_append.1 hy with g | g
  · exact h.msgs y g
  · rw [List.mem_singleton.1 g]
    right
    refine ⟨fun hx => ?_, Or.inl ?_⟩
    · rw [sendFill_msgType] at hx
      rcases hx with hx | hx <;> cases hx
    · show (r.sendFill (newMessage to .msgTimeoutNow none)).term ≤ r.term
      unfold sendFill newMessage
      simp [isVoteMsg]

/-! ### `post_conf_change` -/

theorem postConfChange_lcases {r r' : Raft} {cs : ConfState} (h : r.postConfChange = .ok (r', cs)) :
    r' = ({ r with promotable := Joint.contains r.prs.voters r.id } : Raft).becomeFollower r.term 0 ∨
    r' = { r with promotable := Joint.contains r.prs.voters r.id } ∨
    ∃ r2, MF r r2 ∧ (r' = r2 ∨ r' = r2.abortLeaderTransfer) := by
  unfold postConfChange at h
  dsimp only at h
  split at h
  · cases h; exact Or.inl rfl
  · split at h
    · cases h; exact Or.inr (Or.inl rfl)
    · right; right
      rw [Res.bind_eq_ok_iff] at h
      obtain ⟨r1, h1, h2⟩ := h
      have m0 : MF r ({ r with promotable := Joint.contains r.prs.voters r.id } : Raft) :=
        MF.mk' MF.rf
      have m1 : MF r r1 := by
        split at h1
        · rename_i ra hmc
          exact bcastAppend_mf h1 (maybeCommit_mf hmc m0)
        · rename_i ra hmc
          refine forEachPeer_mf (fun r3 id pr r4 pr4 hx h0 => ?_) h1 (maybeCommit_mf hmc m0)
          ls_auto hx [maybeSendAppend_mf]
        · cases h1
        · cases h1
      rw [Res.bind_eq_ok_iff] at h2
      obtain ⟨r2, h3, h4⟩ := h2
      have m2 : MF r r2 := by
        split at h3
        · cases h3; exact m1
        · split at h3
          · split at h3
            · rw [Res.bind_eq_ok_iff] at h3
              obtain ⟨⟨ro, rss⟩, _, h5⟩ := h3
              exact respondReadStates_mf h5 (MF.mk' m1)
            · cases h3; exact MF.mk' m1
          · cases h3; exact MF.mk' m1
      refine ⟨r2, m2, ?_⟩
      split at h4
      · split at h4
        · cases h4; exact Or.inr rfl
        · cases h4; exact Or.inl rfl
      · cases h4; exact Or.inl rfl

theorem postConfChange_linv {a r r' : Raft} {m : Message} {cs : ConfState} (hm : ¬ isTA m)
    (h : LInv a m r) (hc : r.postConfChange = .ok (r', cs)) : LInv a m r' ∧ r'.term = r.term := by
  rcases postConfChange_lcases hc with e | e | ⟨r2, hf, e⟩
  · subst e
    have h1 : LInv a m ({ r with promotable := Joint.contains r.prs.voters r.id } : Raft) :=
      h.mf (MF.mk' MF.rf)
    exact ⟨becomeFollower_linv h1 (h1.nt hm) r.term 0 (Nat.le_refl _) (fun _ => Or.inr rfl),
      (becomeFollower_all _ _ _).2.1⟩
  · subst e
    exact ⟨h.mf (MF.mk' MF.rf), rfl⟩
  · have h2 := h.mf hf
    rcases e with e | e
    · subst e; exact ⟨h2, hf.term⟩
    · subst e
      exact ⟨h2.upd rfl (Nat.le_refl _) rfl (Or.inl (h2.nt hm)) h2.pc h2.ld, hf.term⟩

/-! ### `restore`, `handle_snapshot` (a follower) -/

/-- the frame of `restore` on a follower: everything but the log and the tracker -/
structure FF (a r : Raft) : Prop where
  term : r.term = a.term
  state : r.state = a.state
  id : r.id = a.id
  leaderId : r.leaderId = a.leaderId
  lt : r.leadTransferee = a.leadTransferee
  msgs : r.msgs = a.msgs

theorem FF.rf {r : Raft} : FF r r := ⟨Eq.refl _, Eq.refl _, Eq.refl _, Eq.refl _, Eq.refl _, Eq.refl _⟩

theorem FF.trans {a b c : Raft} (h1 : FF a b) (h2 : FF b c) : FF a c :=
  ⟨h2.term.trans h1.term, h2.state.trans h1.state, h2.id.trans h1.id,
    h2.leaderId.trans h1.leaderId, h2.lt.trans h1.lt, h2.msgs.trans h1.msgs⟩

theorem FF.mk' {a r : Raft} {x2 : Nat} {x4 : List ReadState} {x5 : RaftLog} {x6 x7 x8 : Nat} {x10 : Bool}
    {x13 : Nat} {x14 : ReadOnly} {x15 x16 : Nat} {x17 x18 x19 x20 x21 : Bool}
    {x22 x23 x24 x25 x26 : Nat} {x27 : Int} {x28 : UncommittedState} {x29 : Nat}
    {x30 : ProgressTracker} {x32 : Option Nat} (h0 : FF a r) :
    FF a { term := r.term, vote := x2, id := r.id, readStates := x4, raftLog := x5,
           maxInflight := x6, maxMsgSize := x7, pendingRequestSnapshot := x8, state := r.state,
           promotable := x10, leaderId := r.leaderId, leadTransferee := r.leadTransferee,
           pendingConfIndex := x13, readOnly := x14, electionElapsed := x15,
           heartbeatElapsed := x16, checkQuorum := x17, preVote := x18,
           skipBcastCommit := x19, batchAppend := x20, disableProposalForwarding := x21,
           heartbeatTimeout := x22, electionTimeout := x23, randomizedElectionTimeout := x24,
           minElectionTimeout := x25, maxElectionTimeout := x26, priority := x27,
           uncommittedState := x28, maxCommittedSizePerReady := x29, prs := x30,
           msgs := r.msgs, nextRand := x32 } :=
  h0.trans ⟨Eq.refl _, Eq.refl _, Eq.refl _, Eq.refl _, Eq.refl _, Eq.refl _⟩

theorem postConfChange_ff {a r : Raft} {log : RaftLog} {prs : ProgressTracker}
    {p : Raft × ConfState} (hs : r.state = .follower)
    (h : ({ r with raftLog := log, prs := prs } : Raft).postConfChange = .ok p) (h0 : FF a r) :
    FF a p.1 := by
  rw [CV.postConfChange_follower_eq _ (by exact hs)] at h
  cases h
  exact FF.mk' (FF.mk' h0)

theorem restore_ff {a r r' : Raft} {snap : Snapshot} {b : Bool} (hs : r.state = .follower)
    (h : r.restore snap = .ok (r', b)) (h0 : FF a r) : FF a r' := by
  unfold Raft.restore at h
  have hne : ¬ (r.state ≠ .follower) := by simp [hs]
  simp only [hne, if_false] at h
  frame_dec h <;> (iterate 2 (try (apply FF.mk'))) <;>
    (solve_by_elim (maxDepth := 14) [FF.rf, postConfChange_ff, FF.mk'])

/-- a step of a follower that keeps term, role, identity, known leader, transferee and queue -/
theorem LInv.ff {a r r' : Raft} {m : Message} (h : LInv a m r) (hs : r.state = .follower)
    (hf : FF r r') : LInv a m r' := by
  refine h.upd hf.id (by rw [hf.term]; exact Nat.le_refl _) hf.msgs ?_ ?_ ?_
  · rcases h.tn with hn | hn
    · exact Or.inl hn
    · exact Or.inr ⟨hn.1, by rw [hf.lt]; exact hn.2⟩
  · intro hc; rw [hf.state, hs] at hc; cases hc
  · rw [hf.state, hf.term, hf.leaderId]; exact h.ld

theorem p_of_type {m : Message} {t : MsgType} (h : m.msgType = t) (ht : plainT t = true) :
    plainT m.msgType = true := by rw [h]; exact ht

theorem handleSnapshot_linv {a r r' : Raft} {m : Message} (m' : Message) (h : LInv a m r)
    (hs : r.state = .follower) (hc : r.handleSnapshot m' = .ok r') :
    LInv a m r' ∧ r'.term = r.term := by
  unfold handleSnapshot at hc
  rw [Res.bind_eq_ok_iff] at hc
  obtain ⟨⟨r1, ok⟩, h1, h2⟩ := hc
  have hf := restore_ff hs h1 FF.rf
  have hl := h.ff hs hf
  dsimp only at h2
  split at h2
  · have hm := send_mf h2 rfl MF.rf
    exact ⟨hl.mf hm, hm.term.trans hf.term⟩
  · have hm := send_mf h2 rfl MF.rf
    exact ⟨hl.mf hm, hm.term.trans hf.term⟩

/-! ### the role arms of `step` -/

theorem stepCandidate_linv {a r r' : Raft} {m : Message} {e : Option RaftError} (h : LInv a m r)
    (hnl : a.state = .leader → a.term < r.term)
    (hc : r.stepCandidate m = .ok (r', e)) : LInv a m r' := by
  have hbf : ∀ (hm : ¬ isTA m) (ht : r.term = m.term), LInv a m (r.becomeFollower m.term m.frm) ∧
      (r.becomeFollower m.term m.frm).state = .follower := fun hm ht =>
    ⟨becomeFollower_linv h (h.nt hm) m.term m.frm (by rw [ht]; exact Nat.le_refl _)
      (fun hl => Or.inl (by rw [← ht]; exact hnl hl)), rfl⟩
  have hresp : (m.msgType = .msgRequestPreVoteResponse ∨ m.msgType = .msgRequestVoteResponse) →
      (if (r.state = .preCandidate ∧ m.msgType ≠ .msgRequestPreVoteResponse) ∨
          (r.state = .candidate ∧ m.msgType ≠ .msgRequestVoteResponse) then Res.ok (r, none)
       else if r.state = .preCandidate ∧ m.reject = false ∧ ¬ (r.term < U64_MAX ∧ m.term = r.term + 1)
         then Res.ok (r, none)
       else (r.poll m.frm m.msgType (!m.reject)).bind (fun (r, _) =>
          (r.maybeCommitByVote m).bind (fun r => Res.ok (r, (none : Option RaftError))))) = .ok (r', e) →
      LInv a m r' := by
    intro hty hc
    have hm : ¬ isTA m := by
      rintro (g | g) <;> rcases hty with hty | hty <;> rw [hty] at g <;> cases g
    split at hc
    · cases hc; exact h
    · rename_i hk1
      split at hc
      · cases hc; exact h
      · rename_i hk2
        rw [Res.bind_eq_ok_iff] at hc
        obtain ⟨⟨r1, res⟩, h1, h2⟩ := hc
        rw [Res.bind_eq_ok_iff] at h2
        obtain ⟨r2, h3, h4⟩ := h2
        cases h4
        have hfv : r.state = .preCandidate → (!m.reject) = true →
            m.frm = a.id ∨ PBack m r.term m.frm := by
          intro hs hv
          right
          have hrj : m.reject = false := by simpa using hv
          have hpt : m.msgType = .msgRequestPreVoteResponse := by
            apply Classical.byContradiction; intro hne; exact hk1 (Or.inl ⟨hs, hne⟩)
          have htm : m.term = r.term + 1 := by
            apply Classical.byContradiction
            intro hne
            exact hk2 ⟨hs, hrj, fun hx => hne hx.2⟩
          exact ⟨hpt, hrj, rfl, htm⟩
        obtain ⟨q1, _⟩ := poll_linv hm h hfv h1
        exact (maybeCommitByVote_linv hm m q1 h3).1
  unfold stepCandidate at hc
  split at hc
  · cases hc; exact h
  · rename_i hty
    have hm : ¬ isTA m := by rintro (g | g) <;> rw [hty] at g <;> cases g
    split at hc
    · cases hc
    · rename_i ht
      have ht' : r.term = m.term := by
        apply Classical.byContradiction; intro hne; exact ht hne
      rw [Res.bind_eq_ok_iff] at hc
      obtain ⟨r1, h1, h2⟩ := hc
      cases h2
      exact (hbf hm ht').1.mf (handleAppendEntries_mf h1 MF.rf)
  · rename_i hty
    have hm : ¬ isTA m := by rintro (g | g) <;> rw [hty] at g <;> cases g
    split at hc
    · cases hc
    · rename_i ht
      have ht' : r.term = m.term := by
        apply Classical.byContradiction; intro hne; exact ht hne
      rw [Res.bind_eq_ok_iff] at hc
      obtain ⟨r1, h1, h2⟩ := hc
      cases h2
      exact (hbf hm ht').1.mf (handleHeartbeat_mf h1 MF.rf)
  · rename_i hty
    have hm : ¬ isTA m := by rintro (g | g) <;> rw [hty] at g <;> cases g
    split at hc
    · cases hc
    · rename_i ht
      have ht' : r.term = m.term := by
        apply Classical.byContradiction; intro hne; exact ht hne
      rw [Res.bind_eq_ok_iff] at hc
      obtain ⟨r1, h1, h2⟩ := hc
      cases h2
      exact (handleSnapshot_linv m (hbf hm ht').1 (hbf hm ht').2 h1).1
  · rename_i hty
    exact hresp (Or.inl hty) hc
  · rename_i hty
    exact hresp (Or.inr hty) hc
  · cases hc; exact h

theorem stepFollower_linv {a r r' : Raft} {m : Message} {e : Option RaftError} (h : LInv a m r)
    (hs : r.state = .follower) (hnl : a.state = .leader → a.term < r.term)
    (hc : r.stepFollower m = .ok (r', e)) : LInv a m r' := by
  have hfw : ∀ (t : MsgType) (r2 : Raft), m.msgType = t → plainT t = true →
      r.send { m with to := r.leaderId } = .ok r2 → LInv a m r2 := fun t r2 hty hp hsnd =>
    h.mf (send_mf hsnd (p_of_type (show ({ m with to := r.leaderId } : Message).msgType = t from hty) hp)
      MF.rf)
  have hel : LInv a m ({ r with electionElapsed := 0, leaderId := m.frm } : Raft) := by
    refine h.upd rfl (Nat.le_refl _) rfl h.tn ?_ ?_
    · intro hx; rw [hs] at hx; cases hx
    · intro hl; exact Or.inr (Or.inl (hnl hl))
  unfold stepFollower at hc
  split at hc
  · rename_i hty
    split at hc
    · cases hc; exact h
    · split at hc
      · cases hc; exact h
      · rw [Res.bind_eq_ok_iff] at hc
        obtain ⟨r1, h1, h2⟩ := hc
        cases h2
        exact hfw _ _ hty rfl h1
  · rw [Res.bind_eq_ok_iff] at hc
    obtain ⟨r1, h1, h2⟩ := hc
    cases h2
    exact hel.mf (handleAppendEntries_mf h1 MF.rf)
  · rw [Res.bind_eq_ok_iff] at hc
    obtain ⟨r1, h1, h2⟩ := hc
    cases h2
    exact hel.mf (handleHeartbeat_mf h1 MF.rf)
  · rw [Res.bind_eq_ok_iff] at hc
    obtain ⟨r1, h1, h2⟩ := hc
    cases h2
    exact (handleSnapshot_linv m hel hs h1).1
  · rename_i hty
    split at hc
    · cases hc; exact h
    · rw [Res.bind_eq_ok_iff] at hc
      obtain ⟨r1, h1, h2⟩ := hc
      cases h2
      exact hfw _ _ hty rfl h1
  · rename_i hty
    have hm : ¬ isTA m := by rintro (g | g) <;> rw [hty] at g <;> cases g
    split at hc
    · rw [Res.bind_eq_ok_iff] at hc
      obtain ⟨r1, h1, h2⟩ := hc
      cases h2
      exact (hup_linv hm h (fun _ => hty) h1).1
    · cases hc; exact h
  · rename_i hty
    split at hc
    · cases hc; exact h
    · rw [Res.bind_eq_ok_iff] at hc
      obtain ⟨r1, h1, h2⟩ := hc
      cases h2
      exact hfw _ _ hty rfl h1
  · split at hc
    · dsimp only at hc
      split at hc
      · cases hc; exact h.mf (MF.mk' MF.rf)
      · cases hc
      · cases hc
    · cases hc; exact h
  · cases hc; exact h

/-! ### the leader arm -/

theorem handleAppendResponseAccepted_linv {a r r' : Raft} {m : Message} {pr : Progress} {op : Bool}
    (h : LInv a m r) (hta : isTA m) (hc : r.handleAppendResponseAccepted m pr op = .ok r') :
    LInv a m r' := by
  unfold handleAppendResponseAccepted at hc
  rw [Res.bind_eq_ok_iff] at hc
  obtain ⟨pr1, _, h2⟩ := hc
  dsimp only at h2
  rw [Res.bind_eq_ok_iff] at h2
  obtain ⟨r1, h3, h4⟩ := h2
  have m1 : MF r r1 := by
    ls_auto h3 [maybeCommit_mf, bcastAppend_mf, sendAppend_mf]
  rw [Res.bind_eq_ok_iff] at h4
  obtain ⟨r2, h5, h6⟩ := h4
  have h2' := h.mf (sendAppendAggressively_mf h5 m1)
  split at h6
  · rename_i hlt
    split at h6
    · cases h6
    · split at h6
      · refine sendTimeoutNow_linv h2' hta ?_ h6
        rw [← hlt]; simp
      · cases h6; exact h2'
  · cases h6; exact h2'

theorem handleAppendResponse_linv {a r r' : Raft} {m : Message} (h : LInv a m r) (hta : isTA m)
    (hc : r.handleAppendResponse m = .ok r') : LInv a m r' := by
  unfold handleAppendResponse at hc
  rw [Res.bind_eq_ok_iff] at hc
  obtain ⟨npi, _, h2⟩ := hc
  split at h2
  · cases h2; exact h
  · dsimp only at h2
    split at h2
    · split at h2
      · cases h2
      · cases h2
      · exact h.mf (sendAppend_mf h2 (MF.mk' MF.rf))
      · cases h2; exact h.mf (MF.mk' MF.rf)
    · split at h2
      · cases h2
      · cases h2
      · cases h2; exact h.mf (MF.mk' MF.rf)
      · exact handleAppendResponseAccepted_linv h hta h2

theorem handleTransferLeader_linv {a r r' : Raft} {m : Message} (h : LInv a m r) (hnt : NT a r)
    (hta : isTA m) (hc : r.handleTransferLeader m = .ok r') : LInv a m r' := by
  -- the continuation, from any state with the same queue
  have hcont : ∀ (r0 : Raft), LInv a m r0 → NT a r0 →
      (if m.frm = r0.id then Res.ok r0
       else
         let r1 : Raft := { r0 with electionElapsed := 0, leadTransferee := some m.frm }
         match r1.prs.get m.frm with
         | none => .panic "raft.handle_transfer_leader.unwrap"
         | some pr =>
           if pr.matched = r1.raftLog.lastIndex then r1.sendTimeoutNow m.frm
           else (r1.sendAppendPr m.frm pr).bind
             (fun (r, pr) => .ok { r with prs := r.prs.set m.frm pr })) = .ok r' → LInv a m r' := by
    intro r0 h0 hn0 hx
    split at hx
    · cases hx; exact h0
    · dsimp only at hx
      have h1 : LInv a m ({ r0 with electionElapsed := 0, leadTransferee := some m.frm } : Raft) :=
        h0.upd rfl (Nat.le_refl _) rfl (Or.inl hn0) h0.pc h0.ld
      split at hx
      · cases hx
      · split at hx
        · exact sendTimeoutNow_linv h1 hta (by simp) hx
        · rw [Res.bind_eq_ok_iff] at hx
          obtain ⟨⟨r2, pr2⟩, h3, h4⟩ := hx
          cases h4
          exact h1.mf (MF.mk' (sendAppendPr_mf h3 MF.rf))
  unfold handleTransferLeader at hc
  split at hc
  · cases hc; exact h
  · dsimp only at hc
    split at hc
    · cases hc; exact h
    · split at hc
      · split at hc
        · cases hc; exact h
        · exact hcont r.abortLeaderTransfer (h.upd rfl (Nat.le_refl _) rfl (Or.inl hnt) h.pc h.ld) hnt hc
      · exact hcont r h hnt hc

theorem stepLeader_linv {a r r' : Raft} {m : Message} {e : Option RaftError} (h : LInv a m r)
    (hnt : NT a r) (hc : r.stepLeader m = .ok (r', e)) : LInv a m r' := by
  unfold stepLeader at hc
  split at hc
  · rw [Res.bind_eq_ok_iff] at hc
    obtain ⟨r1, h1, h2⟩ := hc
    cases h2
    exact h.mf (bcastHeartbeat_mf h1 MF.rf)
  · simp only [Raft.checkQuorumActive] at hc
    have hq : LInv a m ({ r with prs := (r.prs.quorumRecentlyActive r.id).1 } : Raft) := by
      have : MF r ({ r with prs := (r.prs.quorumRecentlyActive r.id).1 } : Raft) := by
        unfold ProgressTracker.quorumRecentlyActive
        exact MF.mk' MF.rf
      exact h.mf this
    have hnq : NT a ({ r with prs := (r.prs.quorumRecentlyActive r.id).1 } : Raft) := hnt
    cases hqa : (r.prs.quorumRecentlyActive r.id).2
    · simp only [hqa, Bool.not_false, if_true] at hc
      cases hc
      exact becomeFollower_linv hq hnq r.term 0 (Nat.le_refl _) (fun _ => Or.inr rfl)
    · simp only [hqa, Bool.not_true, Bool.false_eq_true, if_false] at hc
      cases hc; exact hq
  · split at hc
    · cases hc
    · split at hc
      · cases hc; exact h
      · split at hc
        · cases hc; exact h
        · split at hc
          · rename_i r1 hf
            cases hc
            exact h.mf (filterProposal_mf _ _ _ _ _ hf MF.rf)
          · rename_i r1 es hf
            have m1 := filterProposal_mf _ _ _ _ _ hf MF.rf
            split at hc
            · rename_i r2 ha
              cases hc; exact h.mf (appendEntry_mf ha m1)
            · rename_i r2 ha
              rw [Res.bind_eq_ok_iff] at hc
              obtain ⟨r3, h3, h4⟩ := hc
              cases h4
              exact h.mf (bcastAppend_mf h3 (appendEntry_mf ha m1))
            · cases hc
            · cases hc
  · have hans : ∀ (r0 : Raft), MF r r0 →
        ((r0.handleReadyReadIndex m r0.raftLog.committed).bind (fun (r, om) =>
          match om with
          | some m' => (r.send m').bind (fun r => Res.ok (r, (none : Option RaftError)))
          | none => .ok (r, none))) = .ok (r', e) → LInv a m r' := by
      intro r0 m0 hx
      rw [Res.bind_eq_ok_iff] at hx
      obtain ⟨⟨r1, om⟩, h1, h2⟩ := hx
      have m1 := handleReadyReadIndex_mf h1 m0
      cases om with
      | none => cases h2; exact h.mf m1
      | some m' =>
        dsimp only at h2
        rw [Res.bind_eq_ok_iff] at h2
        obtain ⟨r2, h3, h4⟩ := h2
        cases h4
        exact h.mf (send_mf h3 (handleReadyReadIndex_type h1) m1)
    split at hc
    · cases hc
    · cases hc
    · cases hc; exact h
    · dsimp only at hc
      split at hc
      · exact hans r MF.rf hc
      · split at hc
        · split at hc
          · cases hc
          · rw [Res.bind_eq_ok_iff] at hc
            obtain ⟨ro, _, h2⟩ := hc
            rw [Res.bind_eq_ok_iff] at h2
            obtain ⟨r2, h3, h4⟩ := h2
            cases h4
            exact h.mf (bcastHeartbeatWithCtx_mf h3 (MF.mk' MF.rf))
        · exact hans r MF.rf hc
  · rename_i hty
    rw [Res.bind_eq_ok_iff] at hc
    obtain ⟨r1, h1, h2⟩ := hc
    cases h2
    exact handleAppendResponse_linv h (Or.inr hty) h1
  · rw [Res.bind_eq_ok_iff] at hc
    obtain ⟨r1, h1, h2⟩ := hc
    cases h2
    exact h.mf (handleHeartbeatResponse_mf h1 MF.rf)
  · cases hc; exact h.mf (handleSnapshotStatus_mf MF.rf)
  · cases hc; exact h.mf (handleUnreachable_mf MF.rf)
  · rename_i hty
    rw [Res.bind_eq_ok_iff] at hc
    obtain ⟨r1, h1, h2⟩ := hc
    cases h2
    exact handleTransferLeader_linv h hnt (Or.inl hty) h1
  · cases hc; exact h

end LS
end Raft
end RaftModel
