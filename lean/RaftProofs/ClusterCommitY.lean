import RaftProofs.ClusterCommitX

/-!
Cluster-level commit safety, part Y: what a `call` / `deliver` step of a history gives (`call_facts`),
and the provenance of `MsgAppend`s and `MsgHeartbeat`s: each was queued by the node that led its term
at that moment, is a slice of that leader's log, and carries a commit index the leader had reached.
-/
namespace RaftModel
namespace Cluster
open Node Raft Raft.CC RaftProps.C02 RaftProps.C05

variable {cfg : JointConfig} {c0 : Nat} {h : List Sys}

/-- everything the node-level layers say about one `call` / `deliver` step of the history -/
theorem call_facts (H : Hyp2w cfg c0 h) {n : Nat} {a : Sys} {i : Nat} {st st' : NState}
    {rnd : Option Nat} {op : NodeOp} {res : OpRes}
    (ha : h[n]? = some a) (hi : a.node i = some st)
    (hop : appOp op = true ∨ ∃ m, op = .step m ∧ m ∈ a.net ∧ m.to = i)
    (hc : ∀ j, op ≠ .compact j)
    (hcall : Node.call st rnd op = .ok (res, st')) :
    G (Anet a.net) st.raft (CV.opMsg op) st'.raft ∧ LStep st.raft st'.raft (CV.opMsg op) ∧
    QL st.raft st'.raft (CV.opMsg op) ∧ st.raft.id = i := by
  obtain ⟨s0, _, hall⟩ := H.inv_at
  have I := hall a (mem_of_get ha)
  have hnb := H.nb a (mem_of_get ha)
  have hsn := H.nosnap a (mem_of_get ha)
  have hop1 : appOp op = true ∨ ∃ m, op = .step m ∧ m ∈ a.net := by
    rcases hop with g | ⟨m, g1, g2, _⟩
    · exact .inl g
    · exact .inr ⟨m, g1, g2⟩
  have hop' : op ≠ .drain ∧ ∀ m, op ≠ .rstep m := by
    rcases hop1 with h1 | ⟨m, h1, _⟩
    · constructor
      · intro hc; rw [hc] at h1; cases h1
      · intro m hc; rw [hc] at h1; cases h1
    · rw [h1]
      exact ⟨(by intro hc; cases hc), (by intro m' hc; cases hc)⟩
  have hms : ∀ m, op = .step m → m.msgType ≠ .msgSnapshot := by
    intro m hm
    rcases hop1 with h1 | ⟨m', h1, h2⟩
    · rw [hm] at h1; cases h1
    · rw [hm] at h1; cases h1; exact hsn m h2
  have g := kstep_g (H.mokc n a ha) hnb hsn hi hop1 hcall
  have hw : ∀ m, op = .step m → m.msgType = .msgAppend → MsgOk m := by
    intro m hm hty
    rcases hop1 with h1 | ⟨m', h1, h2⟩
    · rw [hm] at h1; cases h1
    · rw [hm] at h1; cases h1
      exact I.msgOk h2 hty
  have hL := call_lstep st st' rnd op res (I.inv i st hi) (hnb i st hi) hop' hw
    (fun j hj => absurd hj (hc j)) hcall
  have hq := call_q st st' rnd op res (I.inv i st hi) (hnb i st hi) hop' hms hc
    (H.shape a (mem_of_get ha) i st hi).1 (fun x hx hty => by
    rcases g.qlk x hx (by rw [hty]; rfl) with c | c
    · exact .inl c
    · exact .inr c.lead) hcall
  exact ⟨g, hL, hq, (((hist_all H.hist).1 a (mem_of_get ha)).ids i st hi).1⟩

/-- what is recorded about a `MsgAppend` when it is queued -/
def AppGen (h : List Sys) (n i : Nat) (x : Message) : Prop :=
  ∃ s st, h[n]? = some s ∧ s.node i = some st ∧ st.raft.state = .leader ∧
    st.raft.term = x.term ∧ x.frm = i ∧ x.commit ≤ st.raft.raftLog.committed ∧
    st.raft.raftLog.term x.index = .ok x.logTerm ∧ SubW x st.raft.raftLog.abs

/-- what is recorded about a `MsgHeartbeat` when it is queued -/
def HbGen (h : List Sys) (n i : Nat) (x : Message) : Prop :=
  ∃ s st, h[n]? = some s ∧ s.node i = some st ∧ st.raft.state = .leader ∧
    st.raft.term = x.term ∧ x.frm = i ∧ x.commit ≤ st.raft.raftLog.committed ∧
    (x.commit = 0 ∨ Anet s.net x.to x.term x.commit)

/-- **provenance of `MsgAppend`s** -/
theorem append_prov (H : Hyp2w cfg c0 h) : ∀ (n : Nat) (s : Sys), h[n]? = some s →
    (∀ i st, s.node i = some st → ∀ x ∈ st.raft.msgs, x.msgType = .msgAppend →
      Gen (AppGen h) n i x) ∧
    (∀ x ∈ s.net, x.msgType = .msgAppend → ∃ i, Gen (AppGen h) n i x) := by
  refine provenance h H.hist H.steps (fun x => x.msgType = .msgAppend) (AppGen h) ?_
  intro n a b i st st' rnd op res ha hb hi hi' hcall hop hnc _ x hx hty
  obtain ⟨g, _, hq, hid⟩ := call_facts H ha hi hop hnc hcall
  rcases g.qlk x hx (by rw [hty]; rfl) with c | c
  · exact .inl c
  · rcases hq.q x hx hty with d | d
    · exact .inl d
    · right
      exact ⟨b, st', hb, hi', c.lead, c.term.symm, c.frm.trans (g.id.trans hid), (c.app hty).1,
        (c.app hty).2, d⟩

/-- **provenance of `MsgHeartbeat`s** -/
theorem hb_prov (H : Hyp2w cfg c0 h) : ∀ (n : Nat) (s : Sys), h[n]? = some s →
    (∀ i st, s.node i = some st → ∀ x ∈ st.raft.msgs, x.msgType = .msgHeartbeat →
      Gen (HbGen h) n i x) ∧
    (∀ x ∈ s.net, x.msgType = .msgHeartbeat → ∃ i, Gen (HbGen h) n i x) := by
  refine provenance h H.hist H.steps (fun x => x.msgType = .msgHeartbeat) (HbGen h) ?_
  intro n a b i st st' rnd op res ha hb hi hi' hcall hop hnc hnet x hx hty
  obtain ⟨g, _, _, hid⟩ := call_facts H ha hi hop hnc hcall
  rcases g.qlk x hx (by rw [hty]; rfl) with c | c
  · exact .inl c
  · right
    have hid' : st'.raft.id = i := g.id.trans hid
    refine ⟨b, st', hb, hi', c.lead, c.term.symm, c.frm.trans hid', (c.hb hty).1, ?_⟩
    rcases (c.hb hty).2 with d | d
    · exact .inl d
    · right; rw [hnet, c.term]; exact d

end Cluster
end RaftModel
