import RaftProofs.ClusterFlowH
import RaftProofs.ClusterFlowM

/-!
Cluster-level flow control (C13), part I: `HM` through **every** `NodeOp` (`call_hm`), and the
provenance of heartbeats with the tracker entry of the addressee (`hbm_point`): a `MsgHeartbeat` of the
transport or of a queue was queued by a step that ended in a state in which the sender led the
heartbeat's term and held, for the addressee, a progress with `matched ≥` the advertised commit index.
-/
namespace RaftModel
namespace Raft
namespace FH
open Node RD

/-- the postcondition of a call that started in `a` -/
abbrev HQ (a : Raft) : OpRes × NState → Prop := fun x => HM a x.2.raft

theorem unitRes_hm {a : Raft} (st : NState) (x : Res (Raft × Option RaftError))
    (hx : Res.Post (fun y => HM a y.1) x) : Res.Post (HQ a) (unitRes st x) := by
  unfold unitRes
  split
  · exact hx
  · exact hx
  · trivial
  · trivial

theorem okRes_hm {a : Raft} (st : NState) (x : Res Raft) (hx : Res.Post (HM a) x) :
    Res.Post (HQ a) (okRes st x) := by
  unfold okRes
  split
  · exact hx
  · trivial
  · trivial

theorem HM.of_rf {r r' : Raft} (h : RF r r') : HM r r' := (NHb.rfl.rf h).hm

theorem nodeCommitApply_hm (st : NState) (k : Nat) :
    Res.Post (HQ st.raft) (Node.commitApply st k) := by
  unfold Node.commitApply
  simp only []
  have hr1 : Res.Post (NHb st.raft)
      (if st.raft.raftLog.applied < k ∧ k ≤ st.raft.raftLog.committed then
        match st.raft.raftLog.slice (st.raft.raftLog.applied + 1) (k + 1) none false with
        | .ok ents => .ok (st.raft.reduceUncommittedSize ents)
        | .err _ => .ok st.raft
        | .panic s => .panic s
      else .ok st.raft : Res Raft) := by
    split
    · split
      · exact NHb.rfl.rf (reduceUncommittedSize_rf _ _)
      · exact NHb.rfl
      · trivial
    · exact NHb.rfl
  have hb := Res.post_bind hr1 (fun r hr => hr.post_rf (commitApply_rf r k))
  split
  · rename_i r heq
    have h2 : NHb st.raft r := (Res.Post.of_eq hb heq :)
    show HM st.raft _
    split
    · exact h2.hm
    · exact h2.hm
  · trivial
  · trivial

theorem applyOp_hm (st : NState) (op : NodeOp) : Res.Post (HQ st.raft) (applyOp st op) := by
  have h0 : NHb st.raft st.raft := NHb.rfl
  cases op with
  | tick =>
    simp only [applyOp]
    split
    · rename_i raft b heq
      exact (Res.Post.of_eq (tick_hm h0) heq :)
    · trivial
    · trivial
  | step m => exact unitRes_hm st _ (rawStep_hm h0 m)
  | rstep m => exact unitRes_hm st _ (Res.post_mono (step_sq h0 m) (fun x hx => hx.1))
  | propose c d => exact unitRes_hm st _ (Res.post_mono (step_sq h0 _) (fun x hx => hx.1))
  | proposeCc t c d => exact unitRes_hm st _ (Res.post_mono (step_sq h0 _) (fun x hx => hx.1))
  | readIndex c => exact okRes_hm st _ (stepIgnore_hm h0 _)
  | transferLeader x => exact okRes_hm st _ (stepIgnore_hm h0 _)
  | campaign => exact unitRes_hm st _ (Res.post_mono (step_sq h0 _) (fun x hx => hx.1))
  | ping => exact okRes_hm st _ (ping_hm h0.hm)
  | requestSnapshot =>
    exact unitRes_hm st _ (Res.post_mono (requestSnapshot_rf st.raft) (fun x hx => HM.of_rf hx))
  | reportUnreachable x => exact okRes_hm st _ (stepIgnore_hm h0 _)
  | reportSnapshot x f => exact okRes_hm st _ (stepIgnore_hm h0 _)
  | applyConfChange cc =>
    simp only [applyOp]
    split
    · rename_i raft cs heq
      exact NHb.hm (Res.Post.of_eq (applyConfChange_nhb h0 cc) heq :)
    · rename_i raft e heq
      exact NHb.hm (Res.Post.of_eq (applyConfChange_nhb h0 cc) heq :)
    · trivial
    · trivial
  | stabilize =>
    unfold applyOp Node.stabilize
    simp only []
    split
    · exact h0.hm
    · trivial
    · trivial
  | onPersistEntries i t =>
    exact okRes_hm st _ (Res.post_mono (onPersistEntries_rf st.raft i t) (fun x hx => HM.of_rf hx))
  | persistSnap =>
    unfold applyOp Node.persistSnap
    simp only []
    split
    · exact h0.hm
    · split
      · exact h0.hm
      · trivial
      · split
        · trivial
        · trivial
        · split
          · rename_i raft heq
            have := (Res.Post.of_eq (onPersistSnap_rf _ _) heq :)
            exact NHb.hm (NHb.rf (by exact h0) this)
          · trivial
          · trivial
  | commitApply k => exact nodeCommitApply_hm st k
  | compact k =>
    simp only [applyOp]
    split
    · exact h0.hm
    · trivial
    · trivial
  | drain => exact fun x hx => by cases hx
  | triggerSnap => exact h0.hm
  | triggerLog b => exact h0.hm
  | setPriority p => exact h0.hm
  | setBatchAppend b => exact h0.hm
  | skipBcastCommit b => exact h0.hm
  | setCheckQuorum b => exact h0.hm
  | adjustMaxInflight id cap =>
    exact okRes_hm st _ (Res.post_mono (adjustMaxInflightMsgs_rf st.raft id cap)
      (fun x hx => HM.of_rf hx))
  | maybeFreeInflightBuffers => exact HM.of_rf (mapProgress_rf st.raft _)
  | enableGroupCommit b =>
    exact okRes_hm st _ (Res.post_mono (enableGroupCommit_rf st.raft b) (fun x hx => HM.of_rf hx))
  | assignCommitGroups v =>
    exact okRes_hm st _ (Res.post_mono (assignCommitGroups_rf st.raft v) (fun x hx => HM.of_rf hx))
  | clearCommitGroup => exact HM.of_rf (mapProgress_rf st.raft _)
  | checkGroupCommitConsistent =>
    simp only [applyOp]
    split
    · exact h0.hm
    · exact h0.hm
    · trivial
    · trivial
  | setMaxApplyUnpersistedLogLimit x => exact h0.hm
  | setMaxCommittedSizePerReady x => exact h0.hm
  | onEntriesFetched to term aggressively =>
    simp only [applyOp]
    split
    · exact h0.hm
    · split
      · exact h0.hm
      · refine okRes_hm st _ ?_
        split
        · exact Res.post_mono (sendAppendAggressively_rf st.raft to) (fun x hx => HM.of_rf hx)
        · exact Res.post_mono (sendAppend_rf st.raft to) (fun x hx => HM.of_rf hx)

/-- **one call of a node, any `NodeOp`**: every heartbeat the call queues advertises at most the
`matched` index the node holds for the addressee when the call returns -/
theorem call_hm {st st' : NState} {rnd : Option Nat} {op : NodeOp} {res : OpRes}
    (hc : Node.call st rnd op = .ok (res, st')) : HM st.raft st'.raft := by
  unfold Node.call at hc
  have := (Res.Post.of_eq (applyOp_hm _ op) hc :)
  exact this

end FH
end Raft

namespace Cluster
namespace Flow
open Node Raft Raft.CC Raft.FH RaftProps.C02 RaftProps.C05

variable {cfg : JointConfig} {h : List Sys}

/-- what is recorded about a `MsgHeartbeat` when it is queued, with the sender's tracker entry -/
def HbmGen (h : List Sys) (n i : Nat) (x : Message) : Prop :=
  ∃ s st pr, h[n]? = some s ∧ s.node i = some st ∧ st.raft.state = .leader ∧
    st.raft.term = x.term ∧ x.frm = i ∧ x.commit ≤ st.raft.raftLog.committed ∧
    st.raft.prs.get x.to = some pr ∧ x.commit ≤ pr.matched ∧
    (x.commit = 0 ∨ Anet s.net x.to x.term x.commit)

theorem hbm_prov (H : Hyp cfg h) : ∀ (n : Nat) (s : Sys), h[n]? = some s →
    (∀ i st, s.node i = some st → ∀ x ∈ st.raft.msgs, x.msgType = .msgHeartbeat →
      Gen (HbmGen h) n i x) ∧
    (∀ x ∈ s.net, x.msgType = .msgHeartbeat → ∃ i, Gen (HbmGen h) n i x) := by
  refine provenance h H.hist H.steps (fun x => x.msgType = .msgHeartbeat) (HbmGen h) ?_
  intro n a b i st st' rnd op res ha hb hi hi' hcall hop hnc hnet x hx hty
  have hop1 : appOp op = true ∨ ∃ m, op = .step m ∧ m ∈ a.net := by
    rcases hop with g | ⟨m, g1, g2, _⟩
    · exact .inl g
    · exact .inr ⟨m, g1, g2⟩
  have g := kstep_g (H.mokc n a ha) (H.nb a (mem_of_get ha)) (H.nosnap a (mem_of_get ha)) hi hop1
    hcall
  have hid : st.raft.id = i := (((hist_all H.hist).1 a (mem_of_get ha)).ids i st hi).1
  rcases call_hm hcall x hx hty with c | ⟨pr, c1, c2⟩
  · exact .inl c
  · rcases g.qlk x hx (by rw [hty]; rfl) with d | d
    · exact .inl d
    · right
      refine ⟨b, st', pr, hb, hi', d.lead, d.term.symm, d.frm.trans (g.id.trans hid), (d.hb hty).1,
        c1, c2, ?_⟩
      rcases (d.hb hty).2 with e | e
      · exact .inl e
      · right; rw [hnet, d.term]; exact e

/-- the point of the history at which a heartbeat was queued -/
theorem hbm_point (H : Hyp cfg h) {n : Nat} {s : Sys} (hn : h[n]? = some s) {x : Message}
    (hx : x ∈ s.net ∨ ∃ i st, s.node i = some st ∧ x ∈ st.raft.msgs)
    (hty : x.msgType = .msgHeartbeat) :
    ∃ n0 s0 st0 pr, n0 ≤ n ∧ h[n0]? = some s0 ∧ s0.node x.frm = some st0 ∧
      st0.raft.state = .leader ∧ st0.raft.term = x.term ∧
      x.commit ≤ st0.raft.raftLog.committed ∧
      st0.raft.prs.get x.to = some pr ∧ x.commit ≤ pr.matched ∧
      (x.commit = 0 ∨ Anet s0.net x.to x.term x.commit) := by
  have hp := hbm_prov H n s hn
  have key : ∃ i, Gen (HbmGen h) n i x := by
    rcases hx with c | ⟨i, st, hi, c⟩
    · exact hp.2 x c hty
    · exact ⟨i, hp.1 i st hi x c hty⟩
  obtain ⟨i, n0, hle, s0, st0, pr, h1, h2, h3, h4, h5, h6, h7, h8, h9⟩ := key
  subst h5
  exact ⟨n0, s0, st0, pr, hle, h1, h2, h3, h4, h6, h7, h8, h9⟩

end Flow
end Cluster
end RaftModel
