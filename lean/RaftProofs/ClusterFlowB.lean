import RaftProofs.ClusterFlowA

/-!
Cluster-level flow control (C13), part B: the window invariant `TOk r.prs` through the functions of
`RaftModel/RaftCore.lean` (sending / replication helpers, commit, reset, role changes, campaign,
configuration changes, group commit), in the Hoare style of `RaftProofs.RaftNodeC17`.
-/
namespace RaftModel
namespace Raft
namespace FL

/-- the postcondition used throughout -/
abbrev RQ : Raft → Prop := fun x => TOk x.prs

theorem PI.ite {c : Prop} [Decidable c] {a b : Progress} (ha : PI a) (hb : PI b) :
    PI (if c then a else b) := by
  split <;> assumption

theorem send_tok (r : Raft) (m : Message) (h : TOk r.prs) : Res.Post RQ (r.send m) := by
  unfold send
  split
  · trivial
  · split
    · trivial
    · exact h

theorem prepareSendSnapshot_tok (r : Raft) (m : Message) (pr : Progress) (to : Nat)
    (h : TOk r.prs) (hp : PI pr) :
    Res.Post (fun x => TOk x.1.prs ∧ PI x.2.2.1) (r.prepareSendSnapshot m pr to) := by
  unfold prepareSendSnapshot
  split
  · exact ⟨h, hp⟩
  · simp only
    split
    · exact ⟨h, hp⟩
    · trivial
    · trivial
    · split
      · trivial
      · exact ⟨h, hp.becomeSnapshot _⟩

theorem prepareSendEntries_tok (r : Raft) (m : Message) (pr : Progress) (term : Nat)
    (ents : List Entry) (hp : PI pr) :
    Res.Post (fun x => PI x.2) (r.prepareSendEntries m pr term ents) := by
  unfold prepareSendEntries
  split
  · trivial
  · simp only
    split
    · exact hp
    · split
      · rename_i pr' heq; exact (Res.Post.of_eq (hp.updateState _) heq :)
      · trivial
      · trivial

theorem tryBatchingLoop_tok (committed to : Nat) (pr : Progress) (ents : List Entry) (hp : PI pr) :
    ∀ msgs, Res.Post (fun x => PI x.2.1) (tryBatchingLoop committed to pr ents msgs) := by
  intro msgs
  induction msgs with
  | nil => unfold tryBatchingLoop; exact hp
  | cons msg rest ih =>
    unfold tryBatchingLoop
    split
    · split
      · split
        · exact hp
        · simp only
          split
          · trivial
          · split
            · rename_i pr' heq; exact (Res.Post.of_eq (hp.updateState _) heq :)
            · trivial
            · trivial
      · exact hp
    · split
      · rename_i rest' pr' b heq
        exact (Res.Post.of_eq ih heq :)
      · trivial
      · trivial

theorem tryBatching_tok (r : Raft) (to : Nat) (pr : Progress) (ents : List Entry)
    (h : TOk r.prs) (hp : PI pr) :
    Res.Post (fun x => TOk x.1.prs ∧ PI x.2.1) (r.tryBatching to pr ents) := by
  unfold tryBatching
  split
  · rename_i msgs pr' b heq
    exact ⟨h, (Res.Post.of_eq (tryBatchingLoop_tok _ _ _ _ hp _) heq :)⟩
  · trivial
  · trivial

/-- the snapshot fallback of `maybe_send_append` -/
theorem snapSend_tok (r : Raft) (m : Message) (pr : Progress) (to : Nat) (h : TOk r.prs)
    (hp : PI pr) :
    Res.Post (fun x => TOk x.1.prs ∧ PI x.2.1)
      (match r.prepareSendSnapshot m pr to with
        | .ok (r, m, pr, true) => (r.send m).bind (fun r => .ok (r, pr, true))
        | .ok (r, _, pr, false) => .ok (r, pr, false)
        | .err e => .err e
        | .panic s => .panic s : Res (Raft × Progress × Bool)) := by
  split
  · rename_i r1 m1 pr1 heq
    have h1 := (Res.Post.of_eq (prepareSendSnapshot_tok _ _ _ _ h hp) heq :)
    dsimp only at h1
    exact Res.post_bind (send_tok r1 m1 h1.1) (fun a ha => ⟨ha, h1.2⟩)
  · rename_i r1 m1 pr1 heq
    have h1 := (Res.Post.of_eq (prepareSendSnapshot_tok _ _ _ _ h hp) heq :)
    exact h1
  · trivial
  · trivial

theorem maybeSendAppend_tok (r : Raft) (to : Nat) (pr : Progress) (ae : Bool) (h : TOk r.prs)
    (hp : PI pr) :
    Res.Post (fun x => TOk x.1.prs ∧ PI x.2.1) (r.maybeSendAppend to pr ae) := by
  unfold maybeSendAppend
  split
  · exact ⟨h, hp⟩
  · simp only
    split
    · exact snapSend_tok r _ _ _ h hp
    · generalize r.raftLog.entries pr.nextIdx (some r.maxMsgSize) true = E
      generalize r.raftLog.term (pr.nextIdx - 1) = T
      cases E with
      | panic s => trivial
      | ok ents =>
        simp only
        split
        · exact ⟨h, hp⟩
        · split
          · trivial
          · cases T with
            | panic s => trivial
            | err e => exact snapSend_tok r _ _ _ h hp
            | ok term =>
              simp only
              have hb : Res.Post (fun x => TOk x.1.prs ∧ PI x.2.1)
                  (if r.batchAppend then r.tryBatching to pr ents else .ok (r, pr, false)) := by
                split
                · exact tryBatching_tok _ _ _ _ h hp
                · exact ⟨h, hp⟩
              split
              · rename_i r1 pr1 heq
                exact (Res.Post.of_eq (P := fun x => TOk x.1.prs ∧ PI x.2.1) hb heq :)
              · rename_i r1 pr1 heq
                have h1 := (Res.Post.of_eq (P := fun x => TOk x.1.prs ∧ PI x.2.1) hb heq :)
                dsimp only at h1
                split
                · rename_i m2 pr2 heq2
                  have h2 := (Res.Post.of_eq (prepareSendEntries_tok _ _ _ _ _ h1.2) heq2 :)
                  exact Res.post_bind (send_tok r1 m2 h1.1) (fun a ha => ⟨ha, h2⟩)
                · trivial
                · trivial
              · trivial
              · trivial
      | err e =>
        simp only
        split
        · exact ⟨h, hp⟩
        · split
          · trivial
          · cases T with
            | panic s => trivial
            | err e' =>
              simp only
              split
              · contradiction
              · exact ⟨h, hp⟩
              · exact snapSend_tok r _ _ _ h hp
            | ok term =>
              simp only
              split
              · contradiction
              · exact ⟨h, hp⟩
              · exact snapSend_tok r _ _ _ h hp

theorem sendAppendPr_tok (r : Raft) (to : Nat) (pr : Progress) (h : TOk r.prs) (hp : PI pr) :
    Res.Post (fun x => TOk x.1.prs ∧ PI x.2) (r.sendAppendPr to pr) := by
  unfold sendAppendPr
  exact Res.post_bind (maybeSendAppend_tok r to pr true h hp) (fun a ha => ha)

theorem sendAppendAggressivelyPr_tok (fuel : Nat) : ∀ (r : Raft) (to : Nat) (pr : Progress),
    TOk r.prs → PI pr →
    Res.Post (fun x => TOk x.1.prs ∧ PI x.2) (sendAppendAggressivelyPr fuel r to pr) := by
  induction fuel with
  | zero => intro r to pr _ _; unfold sendAppendAggressivelyPr; trivial
  | succ n ih =>
    intro r to pr h hp
    unfold sendAppendAggressivelyPr
    split
    · rename_i r1 pr1 heq
      have h1 := (Res.Post.of_eq (maybeSendAppend_tok _ _ _ _ h hp) heq :)
      exact ih r1 to pr1 h1.1 h1.2
    · rename_i r1 pr1 heq
      exact (Res.Post.of_eq (maybeSendAppend_tok _ _ _ _ h hp) heq :)
    · trivial
    · trivial

theorem sendHeartbeat_tok (r : Raft) (to : Nat) (pr : Progress) (ctx : Option Bytes)
    (h : TOk r.prs) : Res.Post RQ (r.sendHeartbeat to pr ctx) := by
  unfold sendHeartbeat
  exact send_tok r _ h

theorem sendAppend_tok (r : Raft) (to : Nat) (h : TOk r.prs) : Res.Post RQ (r.sendAppend to) := by
  unfold sendAppend
  split
  · trivial
  · rename_i pr hg
    exact Res.post_bind (sendAppendPr_tok r to _ h (h.get hg)) (fun a ha => ha.1.set _ ha.2)

theorem sendAppendAggressively_tok (r : Raft) (to : Nat) (h : TOk r.prs) :
    Res.Post RQ (r.sendAppendAggressively to) := by
  unfold sendAppendAggressively
  split
  · trivial
  · rename_i pr hg
    exact Res.post_bind (sendAppendAggressivelyPr_tok _ r to _ h (h.get hg))
      (fun a ha => ha.1.set _ ha.2)

theorem sendTimeoutNow_tok (r : Raft) (to : Nat) (h : TOk r.prs) :
    Res.Post RQ (r.sendTimeoutNow to) := by
  unfold sendTimeoutNow
  exact send_tok r _ h

theorem foldl_tok {β : Type} (g : Raft → β → Res Raft)
    (hg : ∀ r b, TOk r.prs → Res.Post RQ (g r b)) :
    ∀ (l : List β) (acc : Res Raft), Res.Post RQ acc →
      Res.Post RQ (l.foldl (fun acc b => acc.bind (fun r => g r b)) acc) := by
  intro l
  induction l with
  | nil => intro acc h; exact h
  | cons b rest ih =>
    intro acc h
    simp only [List.foldl_cons]
    apply ih
    exact Res.post_bind h (fun a ha => hg a b ha)

theorem forEachPeer_tok (r : Raft) (f : Raft → Nat → Progress → Res (Raft × Progress))
    (hf : ∀ r id pr, TOk r.prs → PI pr → Res.Post (fun x => TOk x.1.prs ∧ PI x.2) (f r id pr))
    (h : TOk r.prs) : Res.Post RQ (r.forEachPeer f) := by
  unfold forEachPeer
  apply foldl_tok (fun r id => if id = r.id then .ok r
      else match r.prs.get id with
        | none => .ok r
        | some pr => (f r id pr).bind (fun (r, pr) => .ok { r with prs := r.prs.set id pr }))
  · intro r1 id h1
    dsimp only
    split
    · exact h1
    · split
      · exact h1
      · rename_i pr hg
        exact Res.post_bind (hf r1 id _ h1 (h1.get hg)) (fun a ha => ha.1.set _ ha.2)
  · exact h

theorem bcastAppend_tok (r : Raft) (h : TOk r.prs) : Res.Post RQ r.bcastAppend := by
  unfold bcastAppend
  exact forEachPeer_tok r _ (fun r id pr h1 hp => sendAppendPr_tok r id pr h1 hp) h

theorem bcastHeartbeatWithCtx_tok (r : Raft) (ctx : Option Bytes) (h : TOk r.prs) :
    Res.Post RQ (r.bcastHeartbeatWithCtx ctx) := by
  unfold bcastHeartbeatWithCtx
  exact forEachPeer_tok r _ (fun r id pr h1 hp =>
    Res.post_bind (sendHeartbeat_tok r id pr ctx h1) (fun a ha => ⟨ha, hp⟩)) h

theorem bcastHeartbeat_tok (r : Raft) (h : TOk r.prs) : Res.Post RQ r.bcastHeartbeat := by
  unfold bcastHeartbeat
  exact bcastHeartbeatWithCtx_tok r _ h

theorem ping_tok (r : Raft) (h : TOk r.prs) : Res.Post RQ r.ping := by
  unfold ping
  split
  · exact bcastHeartbeat_tok r h
  · exact h

theorem modifyProgress_tok (r : Raft) (id : Nat) (f : Progress → Progress)
    (hf : ∀ pr, PI pr → PI (f pr)) (h : TOk r.prs) : TOk (r.modifyProgress id f).prs :=
  h.modify id f hf

theorem mapProgress_tok (r : Raft) (f : Nat → Progress → Progress)
    (hf : ∀ id pr, PI pr → PI (f id pr)) (h : TOk r.prs) : TOk (r.mapProgress f).prs :=
  h.map f hf

theorem maybeCommit_tok (r : Raft) (h : TOk r.prs) :
    Res.Post (fun x => TOk x.1.prs) r.maybeCommit := by
  unfold maybeCommit
  split
  · trivial
  · trivial
  · split
    · trivial
    · trivial
    · rename_i log hmc
      exact modifyProgress_tok _ _ _ (fun pr hp => hp.updateCommitted _) h
    · exact h

theorem appendEntry_tok (r : Raft) (es : List Entry) (h : TOk r.prs) :
    Res.Post (fun x => TOk x.1.prs) (r.appendEntry es) := by
  unfold appendEntry
  split
  · exact h
  · rename_i r1 heq
    have h1 : TOk r1.prs := by
      unfold maybeIncreaseUncommittedSize at heq
      simp only [Prod.mk.injEq] at heq
      rw [← heq.1]; exact h
    simp only
    split
    · exact h1
    · trivial
    · trivial

theorem handleReadyReadIndex_tok (r : Raft) (req : Message) (index : Nat) (h : TOk r.prs) :
    Res.Post (fun x => TOk x.1.prs) (r.handleReadyReadIndex req index) := by
  unfold handleReadyReadIndex
  split
  · split
    · trivial
    · exact h
  · exact h

theorem respondReadStates_tok (r : Raft) (rss : List ReadIndexStatus) (h : TOk r.prs) :
    Res.Post RQ (r.respondReadStates rss) := by
  unfold respondReadStates
  apply foldl_tok (fun (r : Raft) (rs : ReadIndexStatus) =>
      (r.handleReadyReadIndex rs.req rs.index).bind (fun (r, om) =>
        match om with
        | some m => r.send m
        | none => .ok r))
  · intro r1 rs h1
    exact Res.post_bind (handleReadyReadIndex_tok r1 _ _ h1) (fun a ha => by
      obtain ⟨r2, om⟩ := a
      dsimp only at ha ⊢
      split
      · exact send_tok r2 _ ha
      · exact ha)
  · exact h

/-- the recurring "commit, then broadcast" tail -/
theorem commitThenBcast_tok (r : Raft) (h : TOk r.prs) :
    Res.Post RQ
      (match r.maybeCommit with
        | .ok (r, true) => r.bcastAppend
        | .ok (r, false) => .ok r
        | .err e => .err e
        | .panic s => .panic s : Res Raft) := by
  split
  · rename_i r1 heq
    exact bcastAppend_tok r1 ((Res.Post.of_eq (maybeCommit_tok r h) heq :))
  · rename_i r1 heq
    exact (Res.Post.of_eq (maybeCommit_tok r h) heq :)
  · trivial
  · trivial

theorem commitApplyInternal_tok (r : Raft) (applied : Nat) (sc : Bool) (h : TOk r.prs) :
    Res.Post RQ (r.commitApplyInternal applied sc) := by
  unfold commitApplyInternal
  simp only []
  split
  · trivial
  · trivial
  · split
    · split
      · rename_i r1 heq
        exact (Res.Post.of_eq (appendEntry_tok _ _ (by exact h)) heq :)
      · trivial
      · trivial
      · trivial
    · exact h

theorem commitApply_tok (r : Raft) (applied : Nat) (h : TOk r.prs) :
    Res.Post RQ (r.commitApply applied) := by
  unfold commitApply
  exact commitApplyInternal_tok r applied false h

theorem reset_tok (r : Raft) (term : Nat) (h : TOk r.prs) : TOk (r.reset term).prs := by
  unfold reset
  simp only []
  apply mapProgress_tok
  · intro id pr hp
    apply PI.ite <;> exact reset_inv hp
  · split <;> exact h

theorem onPersistSnap_tok (r : Raft) (index : Nat) (h : TOk r.prs) :
    Res.Post RQ (r.onPersistSnap index) := by
  unfold onPersistSnap
  split
  · exact h
  · trivial
  · trivial

theorem onPersistEntries_tok (r : Raft) (index term : Nat) (h : TOk r.prs) :
    Res.Post RQ (r.onPersistEntries index term) := by
  unfold onPersistEntries
  split
  · trivial
  · trivial
  · simp only
    split
    · split
      · exact h
      · rename_i pr hg
        have hp : PI pr := TOk.get (t := r.prs) h hg
        split
        · trivial
        · trivial
        · rename_i pr1 updated heq
          have hp1 : PI pr1 := (Res.Post.of_eq (hp.maybeUpdate _) heq :)
          have h1 : TOk (r.prs.set r.id pr1) := h.set _ hp1
          split
          · split
            · rename_i r2 heq2
              have h2 : TOk r2.prs := (Res.Post.of_eq (maybeCommit_tok _ h1) heq2 :)
              split
              · exact bcastAppend_tok r2 h2
              · exact h2
            · rename_i r2 heq2
              exact (Res.Post.of_eq (maybeCommit_tok _ h1) heq2 :)
            · trivial
            · trivial
          · exact h1
    · exact h

theorem becomeFollower_tok (r : Raft) (term lead : Nat) (h : TOk r.prs) :
    TOk (r.becomeFollower term lead).prs := by
  unfold becomeFollower
  exact reset_tok r term h

theorem becomeCandidate_tok (r : Raft) (h : TOk r.prs) : Res.Post RQ r.becomeCandidate := by
  unfold becomeCandidate
  split
  · trivial
  · split
    · trivial
    · exact reset_tok r _ h

theorem becomePreCandidate_tok (r : Raft) (h : TOk r.prs) : Res.Post RQ r.becomePreCandidate := by
  unfold becomePreCandidate
  split
  · trivial
  · exact h

theorem becomeLeader_tok (r : Raft) (h : TOk r.prs) : Res.Post RQ r.becomeLeader := by
  unfold becomeLeader
  split
  · trivial
  · simp only []
    have h1 : TOk (r.reset r.term).prs := reset_tok r _ h
    split
    · trivial
    · split
      · trivial
      · rename_i pr hg
        have hp : PI pr := TOk.get (t := (r.reset r.term).prs) h1 hg
        have h2 : TOk ((r.reset r.term).prs.set (r.reset r.term).id pr.becomeReplicate) :=
          h1.set _ hp.becomeReplicate
        split
        · rename_i r2 heq
          exact (Res.Post.of_eq (appendEntry_tok _ _ h2) heq :)
        · trivial
        · trivial
        · trivial

theorem sendVoteRequests_tok (r : Raft) (ct : CampaignType) (vm : MsgType) (term : Nat)
    (h : TOk r.prs) : Res.Post RQ (r.sendVoteRequests ct vm term) := by
  unfold sendVoteRequests
  split
  · trivial
  · trivial
  · split
    · trivial
    · trivial
    · refine foldl_tok _ ?_ _ _ h
      · intro r1 id h1
        split
        · exact h1
        · exact send_tok r1 _ h1

theorem pollWith_tok (onPreWin : Raft → Res Raft)
    (hw : ∀ r, TOk r.prs → Res.Post RQ (onPreWin r)) (r : Raft) (frm : Nat) (t : MsgType)
    (vote : Bool) (h : TOk r.prs) :
    Res.Post (fun x => TOk x.1.prs) (pollWith onPreWin r frm t vote) := by
  unfold pollWith
  simp only []
  have h1 : TOk (r.prs.recordVote frm vote) := h.recordVote frm vote
  split
  · split
    · exact Res.post_bind (hw _ h1) (fun a ha => ha)
    · exact Res.post_bind
        (Res.post_bind (becomeLeader_tok _ h1) (fun a ha => bcastAppend_tok a ha))
        (fun a ha => ha)
  · exact becomeFollower_tok _ _ _ h1
  · exact h1

theorem campaignWith_tok (poll : Raft → Nat → MsgType → Bool → Res (Raft × VoteResult))
    (hpoll : ∀ r frm t v, TOk r.prs → Res.Post (fun x => TOk x.1.prs) (poll r frm t v))
    (r : Raft) (ct : CampaignType) (h : TOk r.prs) : Res.Post RQ (campaignWith poll r ct) := by
  unfold campaignWith
  simp only []
  have hstart : Res.Post (fun x : Raft × MsgType × Nat => TOk x.1.prs)
      (if ct = .preElection then
        r.becomePreCandidate.bind (fun r =>
          if U64_MAX ≤ r.term then .panic "raft.campaign.overflow"
          else .ok (r, .msgRequestPreVote, r.term + 1))
      else r.becomeCandidate.bind (fun r => .ok (r, .msgRequestVote, r.term))) := by
    split
    · exact Res.post_bind (becomePreCandidate_tok r h) (fun a ha => by
        split
        · trivial
        · exact ha)
    · exact Res.post_bind (becomeCandidate_tok r h) (fun a ha => ha)
  exact Res.post_bind hstart (fun a ha => by
    obtain ⟨r1, vm, term⟩ := a
    dsimp only at ha ⊢
    exact Res.post_bind (hpoll r1 r1.id vm true ha) (fun b hb => by
      obtain ⟨r2, res⟩ := b
      dsimp only at hb ⊢
      split
      · exact hb
      · exact sendVoteRequests_tok r2 _ _ _ hb))

theorem campaignAfterPreVote_tok (r : Raft) (h : TOk r.prs) :
    Res.Post RQ r.campaignAfterPreVote := by
  unfold campaignAfterPreVote
  exact campaignWith_tok _ (fun r frm t v h1 =>
    pollWith_tok (fun _ => .panic "model.poll.depth") (fun _ _ => trivial) r frm t v h1) r _ h

theorem poll_tok (r : Raft) (frm : Nat) (t : MsgType) (vote : Bool) (h : TOk r.prs) :
    Res.Post (fun x => TOk x.1.prs) (r.poll frm t vote) := by
  unfold poll
  exact pollWith_tok _ (fun r h1 => campaignAfterPreVote_tok r h1) r frm t vote h

theorem campaign_tok (r : Raft) (ct : CampaignType) (h : TOk r.prs) :
    Res.Post RQ (r.campaign ct) := by
  unfold campaign
  exact campaignWith_tok _ (fun r frm t v h1 => poll_tok r frm t v h1) r ct h

end FL
end Raft
end RaftModel
