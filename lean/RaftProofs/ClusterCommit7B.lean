import RaftProofs.ClusterCommit7A
import RaftProps.C05d

/-!
Cluster-level commit safety with `batch_append`, with queued `MsgSnapshot`s allowed (C01l), part 7B:
**`SaneQ` is not derivable — a concrete history (kernel-evaluated) under `Hyp3wL` and not under `Hyp3wK`.**

The request index of `request_snapshot` is the follower's `last_index` (its last entry must carry the
follower's *current* term), but `pending_request_snapshot` **survives a change of term**
(`become_follower` restores it after `reset`), and from then on the follower answers every `MsgAppend` /
`MsgHeartbeat` of the *new* leader with `send_request_snapshot`, whose `request_snapshot` is the old
`last_index`.  A leader may send entries it has not persisted (`KStep.send` constrains non-leaders only),
so the new leader's log can be shorter than the request:

* history of `c01x_hist` (15 states: node 1 leads term 1, entry 1 committed with node 2's acknowledgement);
* node 1 proposes twice (log 1..3, entries 2, 3 **unpersisted**) and sends; node 2 appends 2 and 3, persists,
  and calls `request_snapshot` (`pending_request_snapshot = 3`);
* node 1 **restarts** (log 1..1), campaigns for term 2 and wins with node 3's vote (log 1..2), ticks
  (heartbeat) and sends;
* node 2 is delivered the `MsgAppend` of term 2: follower of term 2, still `pending_request_snapshot = 3`,
  answers `MsgAppendResponse { reject, request_snapshot = 3 }`, persists, sends;
* node 1 is delivered the request: `Progress.pending_request_snapshot = 3`, `MemStorage::snapshot(3)` relabels
  the snapshot to index 3, `become_snapshot(3)`, **a `MsgSnapshot` is queued — node 1 is mute**;
  `report_snapshot(2, Finish)`: `become_probe`, `next_idx = pending_snapshot + 1 = 4 > last_index + 1 = 3`;
* node 2 restarts (the request is volatile), is delivered the heartbeat of term 2 and answers; node 1 is
  delivered the `MsgHeartbeatResponse`: `send_append` queues **`MsgAppend { index = 3, log_term = 0 }`**
  (`RaftLog::term` answers 0 outside the log) next to the `MsgSnapshot`: `SaneQ` fails (`c01l_s41`);
* node 1 `set_batch_append(true)` (`NoBatch` fails) and proposes twice: `try_batching` glues entry 4 onto
  that message while the log holds an entry of term 2 at index 3 (`c01l_s44`).

Nothing of this reaches the transport (`NoSnapNet` holds in every state).
-/
namespace RaftModel
namespace ClusterB
open Node Raft Raft.CC Raft.CP Cluster RaftProps.C02 RaftProps.C05

def c01l_a9 := c02x_st (Node.call c01x_a8 none (.propose [] [1]))
def c01l_a10 := c02x_st (Node.call c01l_a9 none (.propose [] [2]))
def c01l_a11 := c02x_st (Node.call c01l_a10 none .drain)
def c01l_mA2 := c01l_a10.raft.msgs.tail.head!
def c01l_mA3 := c01l_a10.raft.msgs.tail.tail.head!
def c01l_b7 := c02x_st (Node.call c01x_b6 none (.step c01l_mA2))
def c01l_b8 := c02x_st (Node.call c01l_b7 none (.step c01l_mA3))
def c01l_b9 := c02x_st (Node.call c01l_b8 none .stabilize)
def c01l_b10 := c02x_st (Node.call c01l_b9 none .requestSnapshot)
def c01l_a12 := cf_bootOf 1 c01l_a11
def c01l_a13 := c02x_st (Node.call c01l_a12 none .campaign)
def c01l_a14 := c02x_st (Node.call c01l_a13 none .stabilize)
def c01l_a15 := c02x_st (Node.call c01l_a14 none .drain)
def c01l_mV3 := c01l_a14.raft.msgs.tail.head!
def c01l_c1 := c02x_st (Node.call (c02x_boot 3) none (.step c01l_mV3))
def c01l_c2 := c02x_st (Node.call c01l_c1 none .stabilize)
def c01l_c3 := c02x_st (Node.call c01l_c2 none .drain)
def c01l_mVr := c01l_c2.raft.msgs.head!
def c01l_a16 := c02x_st (Node.call c01l_a15 none (.step c01l_mVr))
def c01l_a17 := c02x_st (Node.call c01l_a16 none .tick)
def c01l_a18 := c02x_st (Node.call c01l_a17 none .drain)
def c01l_mApp2 := c01l_a17.raft.msgs.head!
def c01l_mHb2 := c01l_a17.raft.msgs.tail.tail.head!
def c01l_b11 := c02x_st (Node.call c01l_b10 none (.step c01l_mApp2))
def c01l_b12 := c02x_st (Node.call c01l_b11 none .stabilize)
def c01l_b13 := c02x_st (Node.call c01l_b12 none .drain)
def c01l_mRq := c01l_b12.raft.msgs.tail.tail.tail.head!
def c01l_a19 := c02x_st (Node.call c01l_a18 none (.step c01l_mRq))
def c01l_a20 := c02x_st (Node.call c01l_a19 none (.reportSnapshot 2 false))
def c01l_b14 := cf_bootOf 2 c01l_b13
def c01l_b15 := c02x_st (Node.call c01l_b14 none (.step c01l_mHb2))
def c01l_b16 := c02x_st (Node.call c01l_b15 none .drain)
def c01l_mHr := c01l_b15.raft.msgs.head!
def c01l_a21 := c02x_st (Node.call c01l_a20 none (.step c01l_mHr))
def c01l_a22 := c02x_st (Node.call c01l_a21 none (.setBatchAppend true))
def c01l_a23 := c02x_st (Node.call c01l_a22 none (.propose [] [3]))
def c01l_a24 := c02x_st (Node.call c01l_a23 none (.propose [] [4]))

def c01l_s15 : Sys := c01x_s14.setNode 1 c01l_a9
def c01l_s16 : Sys := c01l_s15.setNode 1 c01l_a10
def c01l_s17 : Sys := { (c01l_s16.setNode 1 c01l_a11) with net := c01l_s16.net ++ c01l_a10.raft.msgs }
def c01l_s18 : Sys := c01l_s17.setNode 2 c01l_b7
def c01l_s19 : Sys := c01l_s18.setNode 2 c01l_b8
def c01l_s20 : Sys := c01l_s19.setNode 2 c01l_b9
def c01l_s21 : Sys := c01l_s20.setNode 2 c01l_b10
def c01l_s22 : Sys := c01l_s21.setNode 1 c01l_a12
def c01l_s23 : Sys := c01l_s22.setNode 1 c01l_a13
def c01l_s24 : Sys := c01l_s23.setNode 1 c01l_a14
def c01l_s25 : Sys := { (c01l_s24.setNode 1 c01l_a15) with net := c01l_s24.net ++ c01l_a14.raft.msgs }
def c01l_s26 : Sys := c01l_s25.setNode 3 c01l_c1
def c01l_s27 : Sys := c01l_s26.setNode 3 c01l_c2
def c01l_s28 : Sys := { (c01l_s27.setNode 3 c01l_c3) with net := c01l_s27.net ++ c01l_c2.raft.msgs }
def c01l_s29 : Sys := c01l_s28.setNode 1 c01l_a16
def c01l_s30 : Sys := c01l_s29.setNode 1 c01l_a17
def c01l_s31 : Sys := { (c01l_s30.setNode 1 c01l_a18) with net := c01l_s30.net ++ c01l_a17.raft.msgs }
def c01l_s32 : Sys := c01l_s31.setNode 2 c01l_b11
def c01l_s33 : Sys := c01l_s32.setNode 2 c01l_b12
def c01l_s34 : Sys := { (c01l_s33.setNode 2 c01l_b13) with net := c01l_s33.net ++ c01l_b12.raft.msgs }
def c01l_s35 : Sys := c01l_s34.setNode 1 c01l_a19
def c01l_s36 : Sys := c01l_s35.setNode 1 c01l_a20
def c01l_s37 : Sys := c01l_s36.setNode 2 c01l_b14
def c01l_s38 : Sys := c01l_s37.setNode 2 c01l_b15
def c01l_s39 : Sys := { (c01l_s38.setNode 2 c01l_b16) with net := c01l_s38.net ++ c01l_b15.raft.msgs }
def c01l_s40 : Sys := c01l_s39.setNode 1 c01l_a21
def c01l_s41 : Sys := c01l_s40.setNode 1 c01l_a22
def c01l_s42 : Sys := c01l_s41.setNode 1 c01l_a23
def c01l_s43 : Sys := c01l_s42.setNode 1 c01l_a24

def c01l_tail : List Sys :=
  [c01l_s15, c01l_s16, c01l_s17, c01l_s18, c01l_s19, c01l_s20, c01l_s21, c01l_s22, c01l_s23, c01l_s24,
   c01l_s25, c01l_s26, c01l_s27, c01l_s28, c01l_s29, c01l_s30, c01l_s31, c01l_s32, c01l_s33, c01l_s34,
   c01l_s35, c01l_s36, c01l_s37, c01l_s38, c01l_s39, c01l_s40, c01l_s41, c01l_s42, c01l_s43]
def c01l_hist : List Sys := c01x_hist ++ c01l_tail

set_option maxRecDepth 100000 in
theorem c01l_ksteps : Chained KStep (c01x_s14 :: c01l_tail) := by
  refine ⟨?_, ?_, ?_, ?_, ?_, ?_, ?_, ?_, ?_, ?_, ?_, ?_, ?_, ?_, ?_, ?_, ?_, ?_, ?_, ?_, ?_, ?_, ?_,
    ?_, ?_, ?_, ?_, ?_, ?_, trivial⟩
  · exact KStep.call _ 1 c01x_a8 c01l_a9 none (.propose [] [1]) _ rfl rfl
      (fun k hc => by cases hc) (fun k hc => by cases hc) (c02x_out _ (by decide +kernel))
  · exact KStep.call _ 1 c01l_a9 c01l_a10 none (.propose [] [2]) _ rfl rfl
      (fun k hc => by cases hc) (fun k hc => by cases hc) (c02x_out _ (by decide +kernel))
  · exact KStep.send _ 1 c01l_a10 c01l_a11 rfl ⟨by decide +kernel, by decide +kernel⟩
      (fun hc => absurd (by decide +kernel) hc) rfl
  · exact KStep.deliver _ 2 c01x_b6 c01l_b7 none c01l_mA2 _ rfl
      (by decide +kernel) (by decide +kernel) (c02x_out _ (by decide +kernel))
  · exact KStep.deliver _ 2 c01l_b7 c01l_b8 none c01l_mA3 _ rfl
      (by decide +kernel) (by decide +kernel) (c02x_out _ (by decide +kernel))
  · exact KStep.call _ 2 c01l_b8 c01l_b9 none .stabilize _ rfl rfl
      (fun k hc => by cases hc) (fun k hc => by cases hc) (c02x_out _ (by decide +kernel))
  · exact KStep.call _ 2 c01l_b9 c01l_b10 none .requestSnapshot _ rfl rfl
      (fun k hc => by cases hc) (fun k hc => by cases hc) (c02x_out _ (by decide +kernel))
  · exact KStep.restart _ 1 c01l_a11 c01l_a12 (c02x_config 1) none rfl rfl
      (cf_bootOf_eq 1 c01l_a11 (by decide +kernel))
  · exact KStep.call _ 1 c01l_a12 c01l_a13 none .campaign _ rfl rfl
      (fun k hc => by cases hc) (fun k hc => by cases hc) (c02x_out _ (by decide +kernel))
  · exact KStep.call _ 1 c01l_a13 c01l_a14 none .stabilize _ rfl rfl
      (fun k hc => by cases hc) (fun k hc => by cases hc) (c02x_out _ (by decide +kernel))
  · exact KStep.send _ 1 c01l_a14 c01l_a15 rfl ⟨by decide +kernel, by decide +kernel⟩
      (fun _ => ⟨by decide +kernel, by decide +kernel⟩) rfl
  · exact KStep.deliver _ 3 (c02x_boot 3) c01l_c1 none c01l_mV3 _ rfl
      (by decide +kernel) (by decide +kernel) (c02x_out _ (by decide +kernel))
  · exact KStep.call _ 3 c01l_c1 c01l_c2 none .stabilize _ rfl rfl
      (fun k hc => by cases hc) (fun k hc => by cases hc) (c02x_out _ (by decide +kernel))
  · exact KStep.send _ 3 c01l_c2 c01l_c3 rfl ⟨by decide +kernel, by decide +kernel⟩
      (fun _ => ⟨by decide +kernel, by decide +kernel⟩) rfl
  · exact KStep.deliver _ 1 c01l_a15 c01l_a16 none c01l_mVr _ rfl
      (by decide +kernel) (by decide +kernel) (c02x_out _ (by decide +kernel))
  · exact KStep.call _ 1 c01l_a16 c01l_a17 none .tick _ rfl rfl
      (fun k hc => by cases hc) (fun k hc => by cases hc) (c02x_out _ (by decide +kernel))
  · exact KStep.send _ 1 c01l_a17 c01l_a18 rfl ⟨by decide +kernel, by decide +kernel⟩
      (fun hc => absurd (by decide +kernel) hc) rfl
  · exact KStep.deliver _ 2 c01l_b10 c01l_b11 none c01l_mApp2 _ rfl
      (by decide +kernel) (by decide +kernel) (c02x_out _ (by decide +kernel))
  · exact KStep.call _ 2 c01l_b11 c01l_b12 none .stabilize _ rfl rfl
      (fun k hc => by cases hc) (fun k hc => by cases hc) (c02x_out _ (by decide +kernel))
  · exact KStep.send _ 2 c01l_b12 c01l_b13 rfl ⟨by decide +kernel, by decide +kernel⟩
      (fun _ => ⟨by decide +kernel, by decide +kernel⟩) rfl
  · exact KStep.deliver _ 1 c01l_a18 c01l_a19 none c01l_mRq _ rfl
      (by decide +kernel) (by decide +kernel) (c02x_out _ (by decide +kernel))
  · exact KStep.call _ 1 c01l_a19 c01l_a20 none (.reportSnapshot 2 false) _ rfl rfl
      (fun k hc => by cases hc) (fun k hc => by cases hc) (c02x_out _ (by decide +kernel))
  · exact KStep.restart _ 2 c01l_b13 c01l_b14 (c02x_config 2) none rfl rfl
      (cf_bootOf_eq 2 c01l_b13 (by decide +kernel))
  · exact KStep.deliver _ 2 c01l_b14 c01l_b15 none c01l_mHb2 _ rfl
      (by decide +kernel) (by decide +kernel) (c02x_out _ (by decide +kernel))
  · exact KStep.send _ 2 c01l_b15 c01l_b16 rfl ⟨by decide +kernel, by decide +kernel⟩
      (fun _ => ⟨by decide +kernel, by decide +kernel⟩) rfl
  · exact KStep.deliver _ 1 c01l_a20 c01l_a21 none c01l_mHr _ rfl
      (by decide +kernel) (by decide +kernel) (c02x_out _ (by decide +kernel))
  · exact KStep.call _ 1 c01l_a21 c01l_a22 none (.setBatchAppend true) _ rfl rfl
      (fun k hc => by cases hc) (fun k hc => by cases hc) (c02x_out _ (by decide +kernel))
  · exact KStep.call _ 1 c01l_a22 c01l_a23 none (.propose [] [3]) _ rfl rfl
      (fun k hc => by cases hc) (fun k hc => by cases hc) (c02x_out _ (by decide +kernel))
  · exact KStep.call _ 1 c01l_a23 c01l_a24 none (.propose [] [4]) _ rfl rfl
      (fun k hc => by cases hc) (fun k hc => by cases hc) (c02x_out _ (by decide +kernel))

theorem c01l_hist_eq : c01l_hist =
    (c05x_hist ++ [c01x_s11, c01x_s12, c01x_s13]) ++ c01x_s14 :: c01l_tail := by
  simp [c01l_hist, c01x_hist]

theorem c01l_ksteps_all : Chained KStep c01l_hist := by
  rw [c01l_hist_eq]
  refine chained_append _ _ _ ?_ c01l_ksteps
  have := c01x_ksteps
  simpa [c01x_hist] using this

theorem c01l_history : History c01l_hist := by
  rw [c01l_hist_eq]
  refine chained_history _ c01x_s14 ?_ _ (Chained.mono (fun _ _ hc => hc.step) _ c01l_ksteps)
  have := c01x_history
  simpa [c01x_hist] using this

/-- what `Hyp3wL` assumes about one state -/
def c01l_chk (s : Sys) : Bool :=
  c02x_fixed s && s.net.all (fun x => decide (x.msgType ≠ .msgSnapshot)) &&
  s.nodes.all (fun p => c01x_nodeOk p.2)

theorem c01l_chk_ok (s : Sys) (h : c01l_chk s = true) :
    FixedCfg c02x_cfg s ∧ (∀ x ∈ s.net, x.msgType ≠ .msgSnapshot) ∧
    (∀ i st, s.node i = some st → c01x_nodeOk st = true) := by
  unfold c01l_chk at h
  simp only [Bool.and_eq_true] at h
  obtain ⟨⟨h1, h3⟩, h4⟩ := h
  rw [List.all_eq_true] at h4
  refine ⟨c02x_fixed_ok s h1, fun x hx => ?_, fun i st hi => ?_⟩
  · rw [List.all_eq_true] at h3
    exact of_decide_eq_true (h3 x hx)
  · exact h4 _ (c02_lookup_mem s.nodes i st hi)

set_option maxRecDepth 100000 in
theorem c01l_chk_tail : ∀ s ∈ c01l_tail, c01l_chk s = true := by
  intro s hs
  simp only [c01l_tail, List.mem_cons, List.not_mem_nil, or_false] at hs
  rcases hs with rfl | rfl | rfl | rfl | rfl | rfl | rfl | rfl | rfl | rfl | rfl | rfl | rfl |
    rfl | rfl | rfl | rfl | rfl | rfl | rfl | rfl | rfl | rfl | rfl | rfl | rfl | rfl | rfl | rfl <;>
    decide +kernel

theorem c01l_chk_all : ∀ s ∈ c01l_hist, FixedCfg c02x_cfg s ∧ (∀ x ∈ s.net, x.msgType ≠ .msgSnapshot) ∧
    (∀ i st, s.node i = some st → c01x_nodeOk st = true) := by
  intro s hs
  rcases List.mem_append.1 hs with c | c
  · obtain ⟨h1, _, h3, h4⟩ := c01x_chk_ok s (c01x_chk_all s c)
    exact ⟨h1, fun x hx => (h3 x hx).1, h4⟩
  · exact c01l_chk_ok s (c01l_chk_tail s c)

/-- **the history satisfies `Hyp3wL`** -/
theorem c01l_hyp3wL : Hyp3wL c02x_cfg 0 c01l_hist := by
  have h0 : c01l_hist[0]? = some c02x_s0 := rfl
  have hall := c01l_chk_all
  have hnode : ∀ s ∈ c01l_hist, ∀ i st, s.node i = some st →
      st.raft.raftLog.unstable.snapshot = none ∧ st.raft.raftLog.store.firstIndex = 1 ∧
      (st.raft.raftLog.abs.snapTerm = some 0 ∨ st.raft.raftLog.abs.snapTerm = none) := by
    intro s hs i st hi
    have := (hall s hs).2.2 i st hi
    unfold c01x_nodeOk at this
    simp only [Bool.and_eq_true, Bool.or_eq_true, decide_eq_true_eq, Option.isNone_iff_eq_none] at this
    exact ⟨this.1.1, this.1.2, this.2⟩
  refine
    { hist := c01l_history, fix := fun s hs => (hall s hs).1, ne := by decide, nd1 := by decide,
      nd2 := by decide, init := ?_, steps := chained_at _ c01l_ksteps_all,
      nosnap := fun s hs x hx => (hall s hs).2.1 x hx,
      nolone := c01x_nolone,
      shape := fun s hs i st hi => ⟨(hnode s hs i st hi).1, (hnode s hs i st hi).2.1⟩,
      initc := ?_, c0z := rfl, snapt0 := ?_ }
  · intro s hs
    rw [h0] at hs; cases hs
    exact c05x_initOk
  · intro s hs i st hi
    rw [h0] at hs; cases hs
    have hm := c02_lookup_mem _ i st hi
    simp only [c02x_s0, List.mem_cons, Prod.mk.injEq, List.not_mem_nil, or_false] at hm
    rcases hm with ⟨rfl, rfl⟩ | ⟨rfl, rfl⟩ | ⟨rfl, rfl⟩ <;> decide
  · intro s hs i st hi t0 ht0 j st0 _
    rcases (hnode s (mem_of_get hs) i st hi).2.2 with c | c
    · rw [c] at ht0; cases ht0; exact Nat.zero_le _
    · rw [c] at ht0; cases ht0

theorem c01l_s40_mem : c01l_s40 ∈ c01l_hist :=
  List.mem_append_right _ (by simp [c01l_tail])

theorem c01l_s43_mem : c01l_s43 ∈ c01l_hist :=
  List.mem_append_right _ (by simp [c01l_tail])

/-- the void-anchored append of the mute leader (state 40) -/
def c01l_void := c01l_a21.raft.msgs.tail.head!

/-- **`SaneQ` fails in state 40** (node 1: a `MsgSnapshot` and a `MsgAppend` anchored at `(3, 0)` queued,
`last_index = 2`) -/
theorem c01l_not_saneQ : ¬ SaneQ c01l_s40 := by
  intro hq
  have hy : c01l_a21.raft.msgs.head! ∈ c01l_a21.raft.msgs := c02x_head_mem _ (by decide +kernel)
  have hx : c01l_void ∈ c01l_a21.raft.msgs := by decide +kernel
  have := hq 1 c01l_a21 rfl ⟨_, hy, by decide +kernel⟩ c01l_void hx (by decide +kernel)
    (by decide +kernel)
  revert this
  decide +kernel

/-- **`NoBatch` fails in state 43** -/
theorem c01l_not_noBatch : ¬ NoBatch c01l_s43 := by
  intro hnb
  have := hnb 1 c01l_a24 rfl
  revert this
  decide +kernel

/-- **the history is not under C01k's `Hyp3wK`** -/
theorem c01l_not_hyp3wK : ¬ Hyp3wK c02x_cfg 0 c01l_hist := by
  intro H
  rcases H.mute with c | c
  · exact c01l_not_noBatch (c _ c01l_s43_mem)
  · exact c01l_not_saneQ (c _ c01l_s40_mem)

/-- the message `try_batching` has glued entry 4 onto (state 43) -/
def c01l_glued := c01l_a24.raft.msgs.tail.head!

/-- what the last state looks like: node 1 leads term 2 with `batch_append`, its queue holds a
`MsgSnapshot` and a `MsgAppend` anchored at `(3, 0)` **carrying entry 4**, while its log holds an entry of
term 2 at index 3 — the queue is not a slice of the log (`InvL` of C05 / C05d fails at this queue) -/
theorem c01l_glued_facts :
    c01l_s43.node 1 = some c01l_a24 ∧ c01l_a24.raft.state = .leader ∧ c01l_a24.raft.term = 2 ∧
    c01l_a24.raft.batchAppend = true ∧
    c01l_a24.raft.msgs.head!.msgType = .msgSnapshot ∧ c01l_glued ∈ c01l_a24.raft.msgs ∧
    c01l_glued.msgType = .msgAppend ∧ c01l_glued.index = 3 ∧ c01l_glued.logTerm = 0 ∧
    c01l_glued.entries.map (·.index) = [4] ∧
    c01l_a24.raft.raftLog.term 3 = .ok 2 ∧ c01l_a24.raft.raftLog.lastIndex = 4 := by
  refine ⟨rfl, ?_, ?_, ?_, ?_, ?_, ?_, ?_, ?_, ?_, ?_, ?_⟩ <;> decide +kernel

/-- … and where it came from: in state 36, after `report_snapshot`, the progress of node 2 at the mute
leader points beyond the log (`next_idx = 4`, `last_index = 2`) -/
theorem c01l_progress_beyond_log :
    c01l_s36.node 1 = some c01l_a20 ∧ c01l_a20.raft.state = .leader ∧
    c01l_a20.raft.raftLog.lastIndex = 2 ∧
    (c01l_a20.raft.prs.get 2).map (·.nextIdx) = some 4 ∧
    c01l_a20.raft.msgs.map (·.msgType) = [.msgSnapshot] ∧
    c01l_mRq.requestSnapshot = 3 ∧ c01l_mRq.term = 2 ∧ c01l_mRq.frm = 2 := by
  refine ⟨rfl, ?_, ?_, ?_, ?_, ?_, ?_, ?_⟩ <;> decide +kernel

/-- nothing of it reaches the transport, and no log or commit index is affected: every commit index
of the history is at most 1 -/
theorem c01l_commits : ∀ s ∈ c01l_tail, ∀ p ∈ s.nodes, p.2.raft.raftLog.committed ≤ 1 := by
  intro s hs
  simp only [c01l_tail, List.mem_cons, List.not_mem_nil, or_false] at hs
  rcases hs with rfl | rfl | rfl | rfl | rfl | rfl | rfl | rfl | rfl | rfl | rfl | rfl | rfl |
    rfl | rfl | rfl | rfl | rfl | rfl | rfl | rfl | rfl | rfl | rfl | rfl | rfl | rfl | rfl | rfl <;>
    decide +kernel

end ClusterB
end RaftModel
