import RaftProofs.ClusterReadM

/-!
Cluster-level ReadIndex safety for **forwarded** reads, part 3A: the per-call lemmas the existing read
layer leaves out (it excludes every `MsgReadIndex` / says nothing about a delivered `MsgReadIndexResp`):

* `stepTerm_plain`: the term preamble of `step` for a `MsgReadIndex` / `MsgReadIndexResp`;
* `stepRi_cases` / `callRi_cases`: what the delivery of a `MsgReadIndex` does (`RiOutD`): nothing the
  read path reads changes (forwarded again, dropped, or the node falls back to follower), or the node
  is a leader that has committed in its term and registers the request with its commit index;
* `stepRir_cases` / `callRir_cases`: a delivered `MsgReadIndexResp` adds a read state only on a
  follower, only if the response carries no term or the node's term (after the term preamble), and
  the read state is `(m.index, m.entries[0].data)`.
-/
namespace RaftModel
namespace Raft
namespace RD
open VoteOb CV Node

/-- the term preamble of `step` for the two message types of a forwarded read -/
theorem stepTerm_plain {r r1 : Raft} {m : Message} {go : Bool}
    (hty : m.msgType = .msgReadIndex ∨ m.msgType = .msgReadIndexResp)
    (h : r.stepTerm m = .ok (r1, go)) :
    (r1 = r ∧ (go = true → m.term = 0 ∨ m.term = r.term)) ∨
    (r.term < m.term ∧ r1 = r.becomeFollower m.term 0 ∧ go = true) := by
  unfold stepTerm at h
  split at h
  · rename_i h0
    cases h; exact .inl ⟨rfl, fun _ => .inl h0⟩
  · split at h
    · rename_i hlt
      dsimp only at h
      split at h
      · rename_i hc
        rcases hc.1 with g | g <;> rcases hty with hty | hty <;> rw [hty] at g <;> cases g
      · split at h
        · rename_i hpv
          rcases hpv with g | ⟨g, _⟩ <;> rcases hty with hty | hty <;> rw [hty] at g <;> cases g
        · split at h
          · rename_i hc
            rcases hc with g | g | g <;> rcases hty with hty | hty <;> rw [hty] at g <;> cases g
          · cases h; exact .inr ⟨hlt, rfl, rfl⟩
    · split at h
      · split at h
        · rename_i hc
          rcases hc.2 with g | g <;> rcases hty with hty | hty <;> rw [hty] at g <;> cases g
        · split at h
          · rename_i g
            rcases hty with hty | hty <;> rw [hty] at g <;> cases g
          · cases h; exact .inl ⟨rfl, fun hc => by cases hc⟩
      · rename_i h1 h2 h3
        cases h
        exact .inl ⟨rfl, fun _ => .inr (by omega)⟩

theorem becomeFollower_state (r : Raft) (t l : Nat) : (r.becomeFollower t l).state = .follower := rfl

/-! ### a delivered `MsgReadIndex` -/

/-- what the delivery of a `MsgReadIndex` `m` does -/
inductive RiOutD (a : Raft) (m : Message) (r : Raft) : Prop
  /-- forwarded again, dropped, or the node fell back to follower (higher term in `m`): nothing the
  read path reads has changed, except that the pending requests may have been discarded -/
  | keep (h : RS a r) (h2 : r.readOnly = a.readOnly ∨ r.state = .follower)
  /-- answered at once: single-voter group or lease-based reads -/
  | now (hs : a.prs.isSingleton = true ∨ a.readOnly.option ≠ .safe)
  /-- the node is a leader that has committed in its term: the request is registered (unless its
  context is pending already) with the commit index as read index -/
  | reg (hl : a.state = .leader) (hc : a.commitToCurrentTerm = .ok true) (ro : ReadOnly)
      (hadd : a.readOnly.addRequest a.raftLog.committed m a.id = .ok ro)
      (hcore : rcore r = rcore ({ a with readOnly := ro } : Raft))

theorem stepFollower_ri {r r' : Raft} {m : Message} {e : Option RaftError}
    (hty : m.msgType = .msgReadIndex) (h : r.stepFollower m = .ok (r', e)) :
    RF r r' ∧ r'.state = r.state := by
  unfold stepFollower at h
  simp only [hty] at h
  split at h
  · cases h; exact ⟨RF.refl _, rfl⟩
  · obtain ⟨r2, hs, hr⟩ := Res.bind_eq_ok h
    cases hr
    refine ⟨Res.Post.of_eq (P := fun x => RF r x) (send_rf r _ (by simp [rdT])) hs, ?_⟩
    rw [send_eq r r' _ hs]

theorem stepRi_cases {a r : Raft} {m : Message} {e : Option RaftError}
    (hty : m.msgType = .msgReadIndex) (h : a.step m = .ok (r, e)) : RiOutD a m r := by
  unfold Raft.step at h
  split at h
  · cases h
  · cases h
  · rename_i r1 heq
    cases h
    rcases stepTerm_plain (.inl hty) heq with ⟨g, _⟩ | ⟨_, _, g⟩
    · subst g; exact .keep (RS.refl _) (.inl rfl)
    · cases g
  · rename_i r1 heq
    simp only [hty] at h
    rcases stepTerm_plain (.inl hty) heq with ⟨g, _⟩ | ⟨hlt, g, _⟩
    · subst g
      split at h
      · unfold stepCandidate at h
        simp only [hty] at h
        cases h; exact .keep (RS.refl _) (.inl rfl)
      · unfold stepCandidate at h
        simp only [hty] at h
        cases h; exact .keep (RS.refl _) (.inl rfl)
      · obtain ⟨k1, _⟩ := stepFollower_ri hty h
        exact .keep k1.toRS (.inl k1.ro)
      · rename_i hl
        unfold stepLeader at h
        simp only [hty] at h
        split at h
        · cases h
        · cases h
        · cases h; exact .keep (RS.refl _) (.inl rfl)
        · rename_i hc
          split at h
          · rename_i hsing
            refine .now (.inl ?_)
            simp only [Bool.and_eq_true] at hsing
            exact hsing.1
          · split at h
            · rename_i hsafe
              split at h
              · cases h
              · rename_i en hen
                obtain ⟨ro, hadd, hb⟩ := Res.bind_eq_ok h
                obtain ⟨r2, hbc, hr⟩ := Res.bind_eq_ok hb
                cases hr
                obtain ⟨k1, _⟩ := Res.Post.of_eq (bcastHeartbeatWithCtx_out _ _) hbc
                exact .reg hl hc ro hadd k1
            · rename_i hlease
              exact .now (.inr (by rw [hlease]; decide))
    · subst g
      rw [becomeFollower_state] at h
      simp only at h
      obtain ⟨k1, k2⟩ := stepFollower_ri hty h
      exact .keep ((becomeFollower_rs a m.term 0 (by omega)).trans k1.toRS)
        (.inr (by rw [k2]; rfl))

theorem RiOutD.rebase {a r : Raft} {m : Message} {rnd : Option Nat}
    (ho : RiOutD ({ a with nextRand := rnd } : Raft) m r) : RiOutD a m r := by
  cases ho with
  | keep h h2 => exact .keep ⟨h.keep, h.tle, h.rs, h.id, h.conf, h.rd⟩ h2
  | now hs => exact .now hs
  | reg hl hc ro hadd hcore => exact .reg hl hc ro hadd hcore

/-- **the delivery of a `MsgReadIndex`**, as one call of a node -/
theorem callRi_cases {st st' : NState} {rnd : Option Nat} {m : Message} {res : OpRes}
    (hty : m.msgType = .msgReadIndex) (h : Node.call st rnd (.step m) = .ok (res, st')) :
    RiOutD st.raft m st'.raft := by
  unfold Node.call at h
  simp only [applyOp] at h
  obtain ⟨raft, e, hx, hr⟩ := unitRes_ok h
  rw [hr]
  apply RiOutD.rebase (rnd := rnd)
  unfold RawNode.step at hx
  split at hx
  · cases hx; exact .keep (RS.refl _) (.inl rfl)
  · split at hx
    · exact stepRi_cases hty hx
    · cases hx; exact .keep (RS.refl _) (.inl rfl)

/-- `add_request` for an arbitrary request message -/
theorem addRequest_specM {ro ro' : ReadOnly} {idx id : Nat} {m : Message}
    (h : ro.addRequest idx m id = .ok ro') :
    ∃ en, m.entries.head? = some en ∧
      (ro' = ro ∨
        (ro'.pendingReadIndex = ro.pendingReadIndex ++
            [(en.data, { req := m, index := idx, acks := [id] })] ∧
          ro'.readIndexQueue = ro.readIndexQueue ++ [en.data])) := by
  unfold ReadOnly.addRequest at h
  split at h
  · cases h
  · rename_i en hen
    refine ⟨en, hen, ?_⟩
    dsimp only at h
    split at h
    · cases h; exact .inl rfl
    · cases h; exact .inr ⟨rfl, rfl⟩

/-! ### a delivered `MsgReadIndexResp` -/

theorem stepFollower_rir {r r' : Raft} {m : Message} {e : Option RaftError}
    (hty : m.msgType = .msgReadIndexResp) (h : r.stepFollower m = .ok (r', e)) :
    r'.state = r.state ∧ r'.term = r.term ∧
    (r'.readStates = r.readStates ∨ ∃ en, m.entries = [en] ∧
      r'.readStates = r.readStates ++ [{ index := m.index, requestCtx := en.data }]) := by
  unfold stepFollower at h
  simp only [hty] at h
  split at h
  · rename_i en hen
    split at h
    · cases h; exact ⟨rfl, rfl, .inr ⟨en, hen, rfl⟩⟩
    · cases h
    · cases h
  · cases h; exact ⟨rfl, rfl, .inl rfl⟩

/-- **a follower only turns a `MsgReadIndexResp` without term or of its current term into a read
state**: every read state after `step(m)`, `m` a `MsgReadIndexResp`, was there before, or the node is
a follower, `m.term` is 0 or the node's term, `m` has exactly one entry and the read state is
`(m.index, m.entries[0].data)` -/
theorem stepRir_cases {a r : Raft} {m : Message} {e : Option RaftError}
    (hty : m.msgType = .msgReadIndexResp) (h : a.step m = .ok (r, e)) :
    ∀ x ∈ r.readStates, x ∈ a.readStates ∨
      (r.state = .follower ∧ (m.term = 0 ∨ m.term = r.term) ∧
        ∃ en, m.entries = [en] ∧ x = { index := m.index, requestCtx := en.data }) := by
  unfold Raft.step at h
  split at h
  · cases h
  · cases h
  · rename_i r1 heq
    cases h
    rcases stepTerm_plain (.inr hty) heq with ⟨g, _⟩ | ⟨_, _, g⟩
    · subst g; exact fun x hx => .inl hx
    · cases g
  · rename_i r1 heq
    simp only [hty] at h
    have hrs : r1.readStates = a.readStates ∧ (m.term = 0 ∨ m.term = r1.term) := by
      rcases stepTerm_plain (.inr hty) heq with ⟨g, g2⟩ | ⟨hlt, g, _⟩
      · subst g; exact ⟨rfl, g2 rfl⟩
      · subst g
        exact ⟨(becomeFollower_rs a m.term 0 (by omega)).rs,
          .inr (becomeFollower_term_vote a m.term 0).1.symm⟩
    split at h
    · unfold stepCandidate at h
      simp only [hty] at h
      cases h; intro x hx; rw [hrs.1] at hx; exact .inl hx
    · unfold stepCandidate at h
      simp only [hty] at h
      cases h; intro x hx; rw [hrs.1] at hx; exact .inl hx
    · rename_i hfo
      obtain ⟨k1, k2, k3⟩ := stepFollower_rir hty h
      intro x hx
      rcases k3 with k3 | ⟨en, k3, k4⟩
      · rw [k3, hrs.1] at hx; exact .inl hx
      · rw [k4] at hx
        rcases List.mem_append.1 hx with g | g
        · rw [hrs.1] at g; exact .inl g
        · right
          refine ⟨k1.trans hfo, by rw [k2]; exact hrs.2, en, k3, List.mem_singleton.1 g⟩
    · unfold stepLeader at h
      simp only [hty] at h
      cases h; intro x hx; rw [hrs.1] at hx; exact .inl hx

/-- … as one call of a node -/
theorem callRir_cases {st st' : NState} {rnd : Option Nat} {m : Message} {res : OpRes}
    (hty : m.msgType = .msgReadIndexResp) (h : Node.call st rnd (.step m) = .ok (res, st')) :
    ∀ x ∈ st'.raft.readStates, x ∈ st.raft.readStates ∨
      (st'.raft.state = .follower ∧ (m.term = 0 ∨ m.term = st'.raft.term) ∧
        ∃ en, m.entries = [en] ∧ x = { index := m.index, requestCtx := en.data }) := by
  unfold Node.call at h
  simp only [applyOp] at h
  obtain ⟨raft, e, hx, hr⟩ := unitRes_ok h
  rw [hr]
  unfold RawNode.step at hx
  split at hx
  · cases hx; exact fun x hx => .inl hx
  · split at hx
    · have := stepRir_cases hty hx
      exact this
    · cases hx; exact fun x hx => .inl hx

end RD
end Raft
end RaftModel
