import RaftProps.C17
import RaftProofs.ClusterVoteF

/-!
Cluster-level leadership transfer (C17c), helper lemmas part A: **what ONE call of `Node.call` (any
`NodeOp`) does to the `MsgTimeoutNow` messages of the outgoing queue** (`call_tn`): every
`MsgTimeoutNow` that is in the queue after the call and was not there before was queued by a node that
is leader after the call, carries its id and term, and is addressed to a peer whose progress has
`matched = last_index` in the state after the call.

The two sites of `Raft::step` are covered by `RaftProps.C17.step_tn`; here the frame is lifted to the
entry points that are not `step` (`tick`, `ping`, `request_snapshot`, `apply_conf_change`,
`on_persist_entries`, `on_persist_snap`, `commit_apply`, the group-commit calls, `on_entries_fetched`,
the emulated application's storage steps and the run-time knobs), none of which queues a
`MsgTimeoutNow`.
-/
namespace RaftModel
namespace Raft
namespace XF
open Node RaftProps.C17

/-- what a call does to the `MsgTimeoutNow`s of the queue: nothing, or the node is (and stays) leader
and exactly one was appended, to a peer `x` with `matched = last_index` afterwards -/
def TnOut (r r' : Raft) : Prop :=
  TN r r' ∨ ∃ x, r.state = .leader ∧ TimeoutNowSent r r' x

theorem TnOut.of_tn {r r' : Raft} (h : TN r r') : TnOut r r' := Or.inl h

/-- `TnOut` in the form the cluster level uses -/
theorem TnOut.elim {r r' : Raft} (h : TnOut r r') :
    ∀ x ∈ r'.msgs, x.msgType = .msgTimeoutNow → x ∈ r.msgs ∨
      (r'.state = .leader ∧ x.term = r'.term ∧ x.frm = r'.id ∧
        ∃ pr, r'.prs.get x.to = some pr ∧ pr.matched = r'.raftLog.lastIndex) := by
  intro x hx hty
  have hin : x ∈ tnOf r'.msgs := by simp [tnOf, hx, hty]
  rcases h with h | ⟨y, hl, pr, h1, _, h3, h4, h5, h6, h7⟩
  · have h' : tnOf r'.msgs = tnOf r.msgs := h
    rw [h'] at hin
    simp [tnOf] at hin
    exact Or.inl hin.1
  · rw [h1] at hin
    simp only [List.mem_append, List.mem_singleton] at hin
    rcases hin with hin | hin
    · simp [tnOf] at hin
      exact Or.inl hin.1
    · right
      subst hin
      exact ⟨h5.trans hl, h6.symm, h7.symm, pr, h3, h4⟩

theorem step_tnout (r : Raft) (m : Message) : Res.Post (fun x => TnOut r x.1) (r.step m) :=
  Res.post_mono (step_tn r m) (fun a ha => by
    rcases ha with ha | ⟨h1, _, h3⟩
    · exact Or.inl ha
    · exact Or.inr ⟨_, h1, h3⟩)

theorem stepIgnore_tnout (r : Raft) (m : Message) : Res.Post (fun x => TnOut r x) (r.stepIgnore m) := by
  unfold stepIgnore
  exact Res.post_bind (step_tnout r m) (fun a ha => Res.post_ok ha)

/-- a message that is neither `MsgTransferLeader` nor `MsgAppendResponse` queues no `MsgTimeoutNow` -/
theorem step_tn_other (r : Raft) (m : Message) (h1 : m.msgType ≠ .msgTransferLeader)
    (h2 : m.msgType ≠ .msgAppendResponse) : Res.Post (fun x => TN r x.1) (r.step m) :=
  Res.post_mono (step_tn r m) (fun a ha => by
    rcases ha with ha | ⟨_, h | h, _⟩
    · exact ha
    · exact absurd h h1
    · exact absurd h h2)

theorem stepIgnore_tn (r : Raft) (m : Message) (h1 : m.msgType ≠ .msgTransferLeader)
    (h2 : m.msgType ≠ .msgAppendResponse) : Res.Post (fun x => TN r x) (r.stepIgnore m) := by
  unfold stepIgnore
  exact Res.post_bind (step_tn_other r m h1 h2) (fun a ha => Res.post_ok ha)

/-- a tick (`tick_election` or `tick_heartbeat`) queues no `MsgTimeoutNow` -/
theorem tick_tn (r : Raft) : Res.Post (fun x => TN r x.1) r.tick := by
  have hE : Res.Post (fun x => TN r x.1) r.tickElection := by
    unfold tickElection
    dsimp only
    split
    · exact Res.post_ok (TN.of_msgs rfl)
    · apply Res.post_bind (stepIgnore_tn _ _ (by simp [newMessage]) (by simp [newMessage]))
      intro a ha
      exact Res.post_ok (TN.trans (TN.of_msgs rfl) ha)
  have hH : Res.Post (fun x => TN r x.1) r.tickHeartbeat := by
    unfold tickHeartbeat
    dsimp only
    apply Res.post_bind (P := fun x => TN r x.1)
    · split
      · apply Res.post_bind (P := fun x => TN r x.1)
        · split
          · apply Res.post_bind (stepIgnore_tn _ _ (by simp [newMessage]) (by simp [newMessage]))
            intro a ha
            exact Res.post_ok (TN.trans (TN.of_msgs rfl) ha)
          · exact Res.post_ok (TN.of_msgs rfl)
        · intro a ha
          split
          · exact Res.post_ok (TN.trans ha (TN.of_msgs rfl))
          · exact Res.post_ok ha
      · exact Res.post_ok (TN.of_msgs rfl)
    · intro a ha
      split
      · exact Res.post_ok ha
      · split
        · apply Res.post_bind (stepIgnore_tn _ _ (by simp [newMessage]) (by simp [newMessage]))
          intro b hb
          exact Res.post_ok (ha.trans (TN.trans (TN.of_msgs rfl) hb))
        · exact Res.post_ok ha
  unfold tick
  split <;> assumption

theorem ping_tn (r : Raft) : Res.Post (fun x => TN r x) r.ping := by
  unfold ping
  split
  · exact Res.post_mono (bcastHeartbeat_frameT r) (fun a ha => ha.toTN)
  · exact Res.post_ok (TN.refl _)

theorem requestSnapshot_tn (r : Raft) : Res.Post (fun x => TN r x.1) r.requestSnapshot := by
  unfold requestSnapshot
  split
  · exact Res.post_ok (TN.refl _)
  · split
    · exact Res.post_ok (TN.refl _)
    · split
      · exact Res.post_ok (TN.refl _)
      · split
        · exact Res.post_ok (TN.refl _)
        · dsimp only
          split
          · trivial
          · trivial
          · split
            · apply Res.post_bind (sendRequestSnapshot_frameT _)
              intro a ha
              exact Res.post_ok (TN.trans (TN.of_msgs rfl) ha.toTN)
            · exact Res.post_ok (TN.refl _)

theorem applyConfChange_tn (r : Raft) (cc : ConfChangeV2) :
    Res.Post (fun x => TN r x.1) (r.applyConfChange cc) := by
  unfold applyConfChange
  dsimp only
  split
  · exact Res.post_ok (TN.refl _)
  · apply Res.post_bind (postConfChange_tn _)
    intro a ha
    exact Res.post_ok (TN.trans (TN.of_msgs rfl) ha)

/-- `maybe_commit` followed by `bcast_append` when the commit index moved -/
theorem commitBcast_tn (r : Raft) :
    Res.Post (fun x => TN r x)
      (match r.maybeCommit with
        | .ok (r, true) => r.bcastAppend
        | .ok (r, false) => .ok r
        | .err e => .err e
        | .panic s => .panic s) := by
  have hc := maybeCommit_frameT r
  split
  · rename_i r1 heq
    rw [heq] at hc
    exact Res.post_mono (bcastAppend_frameT r1) (fun a ha => (FrameT.trans hc ha).toTN)
  · rename_i r1 heq
    rw [heq] at hc
    exact Res.post_ok (FrameT.toTN hc)
  · trivial
  · trivial

/-- `maybe_commit` followed by `bcast_append` when the commit index moved and `should_bcast_commit` -/
theorem commitBcast2_tn (r : Raft) :
    Res.Post (fun x => TN r x)
      (match r.maybeCommit with
        | .ok (r, true) => if r.shouldBcastCommit then r.bcastAppend else .ok r
        | .ok (r, false) => .ok r
        | .err e => .err e
        | .panic s => .panic s) := by
  have hc := maybeCommit_frameT r
  split
  · rename_i r1 heq
    rw [heq] at hc
    split
    · exact Res.post_mono (bcastAppend_frameT r1) (fun a ha => (FrameT.trans hc ha).toTN)
    · exact Res.post_ok (FrameT.toTN hc)
  · rename_i r1 heq
    rw [heq] at hc
    exact Res.post_ok (FrameT.toTN hc)
  · trivial
  · trivial

theorem onPersistEntries_tn (r : Raft) (index term : Nat) :
    Res.Post (fun x => TN r x) (r.onPersistEntries index term) := by
  unfold onPersistEntries
  split
  · trivial
  · trivial
  · dsimp only
    split
    · split
      · exact Res.post_ok (TN.of_msgs rfl)
      · split
        · trivial
        · trivial
        · split
          · exact Res.post_mono (commitBcast2_tn _) (fun a ha => TN.trans (TN.of_msgs rfl) ha)
          · exact Res.post_ok (TN.of_msgs rfl)
    · exact Res.post_ok (TN.of_msgs rfl)

theorem onPersistSnap_tn (r : Raft) (index : Nat) :
    Res.Post (fun x => TN r x) (r.onPersistSnap index) := by
  unfold onPersistSnap
  split
  · exact Res.post_ok (TN.of_msgs rfl)
  · trivial
  · trivial

theorem commitApply_tn (r : Raft) (k : Nat) : Res.Post (fun x => TN r x) (r.commitApply k) := by
  unfold commitApply commitApplyInternal
  dsimp only
  split
  · trivial
  · trivial
  · rename_i log _
    split
    · have ha := appendEntry_frameT ({ r with raftLog := log } : Raft) [{ etype := 2 }]
      split
      · rename_i r1 heq
        rw [heq] at ha
        exact Res.post_ok (TN.trans (TN.of_msgs rfl) (TN.trans (FrameT.toTN ha) (TN.of_msgs rfl)))
      · trivial
      · trivial
      · trivial
    · exact Res.post_ok (TN.of_msgs rfl)

theorem reduceUncommittedSize_tn (r : Raft) (ents : List Entry) : TN r (r.reduceUncommittedSize ents) := by
  unfold reduceUncommittedSize
  split
  · exact TN.refl _
  · exact TN.of_msgs rfl

theorem enableGroupCommit_tn (r : Raft) (b : Bool) :
    Res.Post (fun x => TN r x) (r.enableGroupCommit b) := by
  unfold enableGroupCommit
  dsimp only
  split
  · exact Res.post_mono (commitBcast_tn _) (fun a ha => TN.trans (TN.of_msgs rfl) ha)
  · exact Res.post_ok (TN.of_msgs rfl)

theorem assignFold_tn (ids : List (Nat × Nat)) : ∀ (acc : Res Raft) (r : Raft),
    Res.Post (fun x => TN r x) acc →
    Res.Post (fun x => TN r x) (ids.foldl (fun (acc : Res Raft) (p : Nat × Nat) =>
      acc.bind (fun r =>
        if p.2 = 0 then .panic "raft.assign_commit_groups.assert"
        else .ok (r.modifyProgress p.1 (fun pr => { pr with commitGroupId := p.2 })))) acc) := by
  induction ids with
  | nil => intro acc r h; exact h
  | cons p t ih =>
    intro acc r h
    simp only [List.foldl_cons]
    apply ih
    apply Res.post_bind h
    intro a ha
    split
    · trivial
    · exact Res.post_ok (TN.trans ha (modifyProgress_frameT _ _ _).toTN)

theorem assignCommitGroups_tn (r : Raft) (ids : List (Nat × Nat)) :
    Res.Post (fun x => TN r x) (r.assignCommitGroups ids) := by
  unfold assignCommitGroups
  dsimp only
  apply Res.post_bind (assignFold_tn ids (.ok r) r (TN.refl _))
  intro a ha
  split
  · exact Res.post_mono (commitBcast_tn _) (fun b hb => TN.trans ha hb)
  · exact Res.post_ok ha

theorem adjustMaxInflightMsgs_tn (r : Raft) (id cap : Nat) :
    Res.Post (fun x => TN r x) (r.adjustMaxInflightMsgs id cap) := by
  unfold adjustMaxInflightMsgs
  split
  · exact Res.post_ok (TN.refl _)
  · split
    · exact Res.post_ok (TN.of_msgs rfl)
    · trivial

/-- every `MsgTimeoutNow` in the queue after the call was there before, or the node is leader after the
call, the message carries its id and term, and the addressee's progress has `matched = last_index` -/
def CallTn (st st' : NState) : Prop :=
  ∀ x ∈ st'.raft.msgs, x.msgType = .msgTimeoutNow → x ∈ st.raft.msgs ∨
    (st'.raft.state = .leader ∧ x.term = st'.raft.term ∧ x.frm = st'.raft.id ∧
      ∃ pr, st'.raft.prs.get x.to = some pr ∧ pr.matched = st'.raft.raftLog.lastIndex)

theorem callTn_out {st st' : NState} {rnd : Option Nat}
    (h : TnOut ({ st.raft with nextRand := rnd } : Raft) st'.raft) : CallTn st st' :=
  fun x hx hty => h.elim x hx hty

theorem callTn_tn {st st' : NState} {rnd : Option Nat}
    (h : TN ({ st.raft with nextRand := rnd } : Raft) st'.raft) : CallTn st st' :=
  callTn_out (rnd := rnd) (Or.inl h)

theorem callTn_msgs {st st' : NState} (h : st'.raft.msgs = st.raft.msgs) : CallTn st st' :=
  fun x hx _ => Or.inl (h ▸ hx)

theorem post_fst {α β : Type} {P : α → Prop} {x : Res (α × β)} {a : α} {b : β}
    (hp : Res.Post (fun y => P y.1) x) (h : x = .ok (a, b)) : P a :=
  Res.Post.of_eq (P := fun y => P y.1) hp h

/-- **one call of a node** — every `NodeOp` -/
theorem call_tn (st st' : NState) (rnd : Option Nat) (op : NodeOp) (res : OpRes)
    (h : Node.call st rnd op = .ok (res, st')) : CallTn st st' := by
  unfold Node.call at h
  cases op with
  | tick =>
    simp only [applyOp] at h
    split at h
    · rename_i raft b heq
      cases h
      have heq' : ({ st.raft with nextRand := rnd } : Raft).tick = .ok (raft, b) := heq
      exact callTn_tn (rnd := rnd) (post_fst (tick_tn _) heq')
    · cases h
    · cases h
  | step m =>
    simp only [applyOp] at h
    obtain ⟨raft, e, hx, hr⟩ := CV.unitRes_ok h
    unfold RawNode.step at hx
    split at hx
    · cases hx; exact callTn_msgs (by rw [hr])
    · split at hx
      · rw [← hr] at hx
        exact callTn_out (rnd := rnd) (post_fst (step_tnout _ m) hx)
      · cases hx; exact callTn_msgs (by rw [hr])
  | rstep m =>
    simp only [applyOp] at h
    obtain ⟨raft, e, hx, hr⟩ := CV.unitRes_ok h
    rw [← hr] at hx
    exact callTn_out (rnd := rnd) (post_fst (step_tnout _ m) hx)
  | propose c d =>
    simp only [applyOp] at h
    obtain ⟨raft, e, hx, hr⟩ := CV.unitRes_ok h
    rw [← hr] at hx
    exact callTn_out (rnd := rnd) (post_fst (step_tnout _ _) hx)
  | proposeCc t c d =>
    simp only [applyOp] at h
    obtain ⟨raft, e, hx, hr⟩ := CV.unitRes_ok h
    rw [← hr] at hx
    exact callTn_out (rnd := rnd) (post_fst (step_tnout _ _) hx)
  | readIndex c =>
    simp only [applyOp] at h
    obtain ⟨raft, hx, hr⟩ := CV.okRes_ok h
    rw [← hr] at hx
    exact callTn_out (rnd := rnd) (Res.Post.of_eq (stepIgnore_tnout _ _) hx)
  | transferLeader x =>
    simp only [applyOp] at h
    obtain ⟨raft, hx, hr⟩ := CV.okRes_ok h
    rw [← hr] at hx
    exact callTn_out (rnd := rnd) (Res.Post.of_eq (stepIgnore_tnout _ _) hx)
  | campaign =>
    simp only [applyOp] at h
    obtain ⟨raft, e, hx, hr⟩ := CV.unitRes_ok h
    rw [← hr] at hx
    exact callTn_out (rnd := rnd) (post_fst (step_tnout _ _) hx)
  | ping =>
    simp only [applyOp] at h
    obtain ⟨raft, hx, hr⟩ := CV.okRes_ok h
    rw [← hr] at hx
    exact callTn_tn (rnd := rnd) (Res.Post.of_eq (ping_tn _) hx)
  | requestSnapshot =>
    simp only [applyOp] at h
    obtain ⟨raft, e, hx, hr⟩ := CV.unitRes_ok h
    rw [← hr] at hx
    exact callTn_tn (rnd := rnd) (post_fst (requestSnapshot_tn _) hx)
  | reportUnreachable x =>
    simp only [applyOp] at h
    obtain ⟨raft, hx, hr⟩ := CV.okRes_ok h
    rw [← hr] at hx
    exact callTn_out (rnd := rnd) (Res.Post.of_eq (stepIgnore_tnout _ _) hx)
  | reportSnapshot x f =>
    simp only [applyOp] at h
    obtain ⟨raft, hx, hr⟩ := CV.okRes_ok h
    rw [← hr] at hx
    exact callTn_out (rnd := rnd) (Res.Post.of_eq (stepIgnore_tnout _ _) hx)
  | applyConfChange cc =>
    simp only [applyOp] at h
    split at h
    · rename_i raft cs heq
      cases h
      exact callTn_tn (rnd := rnd) (post_fst (applyConfChange_tn _ cc) heq)
    · rename_i raft e heq
      cases h
      exact callTn_tn (rnd := rnd) (post_fst (applyConfChange_tn _ cc) heq)
    · cases h
    · cases h
  | stabilize =>
    simp only [applyOp, Node.stabilize] at h
    split at h
    · cases h; exact callTn_msgs rfl
    · cases h
    · cases h
  | onPersistEntries i t =>
    simp only [applyOp] at h
    obtain ⟨raft, hx, hr⟩ := CV.okRes_ok h
    rw [← hr] at hx
    exact callTn_tn (rnd := rnd) (Res.Post.of_eq (onPersistEntries_tn _ i t) hx)
  | persistSnap =>
    simp only [applyOp, Node.persistSnap] at h
    split at h
    · cases h; exact callTn_msgs rfl
    · split at h
      · cases h; exact callTn_msgs rfl
      · cases h
      · split at h
        · cases h
        · cases h
        · split at h
          · rename_i raft hop'
            cases h
            have := Res.Post.of_eq (onPersistSnap_tn _ _) hop'
            exact callTn_tn (rnd := rnd) (TN.trans (TN.of_msgs rfl) this)
          · cases h
          · cases h
  | commitApply k =>
    simp only [applyOp, Node.commitApply] at h
    split at h
    · rename_i r2 hb
      rw [Res.bind_eq_ok_iff] at hb
      obtain ⟨r1, h1, h2⟩ := hb
      have m1 : TN ({ st.raft with nextRand := rnd } : Raft) r1 := by
        split at h1
        · split at h1
          · cases h1; exact reduceUncommittedSize_tn _ _
          · cases h1; exact TN.refl _
          · cases h1
        · cases h1; exact TN.refl _
      have m2 := TN.trans m1 (Res.Post.of_eq (commitApply_tn r1 k) h2)
      cases h
      refine callTn_tn (rnd := rnd) ?_
      dsimp only
      split
      · exact TN.trans m2 (TN.of_msgs rfl)
      · exact m2
    · cases h
    · cases h
  | compact k =>
    simp only [applyOp] at h
    split at h
    · cases h; exact callTn_msgs rfl
    · cases h
    · cases h
  | drain =>
    simp only [applyOp] at h
    cases h
    intro x hx _
    cases hx
  | triggerSnap => simp only [applyOp] at h; cases h; exact callTn_msgs rfl
  | triggerLog b => simp only [applyOp] at h; cases h; exact callTn_msgs rfl
  | setPriority p => simp only [applyOp] at h; cases h; exact callTn_msgs rfl
  | setBatchAppend b => simp only [applyOp] at h; cases h; exact callTn_msgs rfl
  | skipBcastCommit b => simp only [applyOp] at h; cases h; exact callTn_msgs rfl
  | setCheckQuorum b => simp only [applyOp] at h; cases h; exact callTn_msgs rfl
  | adjustMaxInflight id cap =>
    simp only [applyOp] at h
    obtain ⟨raft, hx, hr⟩ := CV.okRes_ok h
    rw [← hr] at hx
    exact callTn_tn (rnd := rnd) (Res.Post.of_eq (adjustMaxInflightMsgs_tn _ id cap) hx)
  | maybeFreeInflightBuffers => simp only [applyOp] at h; cases h; exact callTn_msgs rfl
  | enableGroupCommit b =>
    simp only [applyOp] at h
    obtain ⟨raft, hx, hr⟩ := CV.okRes_ok h
    rw [← hr] at hx
    exact callTn_tn (rnd := rnd) (Res.Post.of_eq (enableGroupCommit_tn _ b) hx)
  | assignCommitGroups v =>
    simp only [applyOp] at h
    obtain ⟨raft, hx, hr⟩ := CV.okRes_ok h
    rw [← hr] at hx
    exact callTn_tn (rnd := rnd) (Res.Post.of_eq (assignCommitGroups_tn _ v) hx)
  | clearCommitGroup => simp only [applyOp] at h; cases h; exact callTn_msgs rfl
  | checkGroupCommitConsistent =>
    simp only [applyOp] at h
    split at h
    · cases h; exact callTn_msgs rfl
    · cases h; exact callTn_msgs rfl
    · cases h
    · cases h
  | setMaxApplyUnpersistedLogLimit x => simp only [applyOp] at h; cases h; exact callTn_msgs rfl
  | setMaxCommittedSizePerReady x => simp only [applyOp] at h; cases h; exact callTn_msgs rfl
  | onEntriesFetched to term aggr =>
    rcases CV.onEntriesFetched_ok h with h | ⟨-, -, -, raft, hx, h⟩
    · cases h; exact callTn_msgs rfl
    · cases h
      rcases hx with hx | hx
      · exact callTn_tn (rnd := rnd) (Res.Post.of_eq (sendAppendAggressively_frameT _ to) hx).toTN
      · exact callTn_tn (rnd := rnd) (Res.Post.of_eq (sendAppend_frameT _ to) hx).toTN

end XF
end Raft
end RaftModel
