import RaftProofs.ClusterCommit5c4M

/-!
Cluster-level commit safety with `batch_append`, **with queued `MsgSnapshot`s allowed** (C01k), part 6A.

`Hyp3wB` (`RaftProofs/ClusterCommit5c2P.lean`) assumes `nosq`: no `MsgSnapshot` is ever queued.  The only
place the C01f development *uses* it is `sane_of_ci` (`ClusterCommit5c4J.lean`): the cluster invariant
`CI` already carries C01d's alternative "… or a `MsgSnapshot` is queued next to it" (`CI.qa`,
`NodeI.po`), and `nosq` kills that alternative in order to hand C05d's `SaneAnchors` to the Log Matching
layer with batching.  So `SaneAnchors` is only ever *assumed* at the nodes that have a `MsgSnapshot`
queued (**mute** nodes: under `nosnap` they can never `send` again before a restart); everywhere else it
is derived.  This file replaces `nosq` by exactly that:

* `SaneQ s`: every node of `s` **that has a `MsgSnapshot` queued** has no `MsgAppend` anchored in the
  void in its queue (`nosq` makes it vacuous);
* `Hyp3wQ`: the fields of `Hyp3wB` with `nosq` replaced by `saneq : ∀ s ∈ h, SaneQ s`;
* copies of `Hyp3wB.take`, `sane_of_ci`, `hyp2wB_take`, `hyp3a_take` (5c4J) and of `ci_init`, `ci_call`,
  `ci_step`, `ci_all`, `Hyp3wB.toHyp3aB` (5c4L) over `Hyp3wQ` — everything else of the C01f layer takes
  `Hyp3aB` / `Hyp2wB` and is reused unchanged.
-/
namespace RaftModel
namespace ClusterB
open Node Raft Raft.CC Raft.CP RaftProps.C02 RaftProps.C05 Raft.CB Raft.Bt Cluster

/-- **the mute nodes queue no append anchored in the void**: a node that has a `MsgSnapshot` in its
queue has no `MsgAppend` with `log_term = 0` at an anchor `≠ 0` in its queue.  (For the nodes *without* a
queued `MsgSnapshot` this is a theorem — `CI.qa`.) -/
def SaneQ (s : Sys) : Prop :=
  ∀ i st, s.node i = some st → QSnap st.raft.msgs →
    ∀ x ∈ st.raft.msgs, x.msgType = .msgAppend → x.logTerm = 0 → x.index = 0

/-- no `MsgSnapshot` queued: `SaneQ` is vacuous -/
theorem SaneQ.of_nosq {s : Sys}
    (h : ∀ i st, s.node i = some st → ∀ y ∈ st.raft.msgs, y.msgType ≠ .msgSnapshot) : SaneQ s := by
  intro i st hi ⟨y, hy, hyt⟩
  exact absurd hyt (h i st hi y hy)

/-- **`Hyp3wB` with `nosq` weakened to `saneq`** -/
structure Hyp3wQ (cfg : JointConfig) (c0 : Nat) (h : List Sys) : Prop where
  hist : History h
  fix : ∀ s ∈ h, FixedCfg cfg s
  ne : cfg.incoming ≠ []
  nd1 : cfg.incoming.Nodup
  nd2 : cfg.outgoing.Nodup
  init : ∀ s : Sys, h[0]? = some s → InitOk s
  steps : ∀ (n : Nat) (a b : Sys), h[n]? = some a → h[n + 1]? = some b → KStep a b
  nosnap : ∀ s ∈ h, NoSnapNet s
  mv : MultiVoter cfg
  nolone : ∀ i Q, IsJointQuorum cfg Q → ∃ k ∈ Q, k ≠ i
  shape : ∀ s ∈ h, ∀ i st, s.node i = some st →
    st.raft.raftLog.unstable.snapshot = none ∧ st.raft.raftLog.store.firstIndex = c0 + 1
  initc : ∀ s : Sys, h[0]? = some s → ∀ i st, s.node i = some st → st.raft.raftLog.committed = c0
  c0z : c0 = 0
  snapt0 : ∀ s0, h[0]? = some s0 → ∀ i sti, s0.node i = some sti → ∀ t0,
    sti.raft.raftLog.abs.snapTerm = some t0 → ∀ j stj, s0.node j = some stj → t0 ≤ stj.raft.term
  saneq : ∀ s ∈ h, SaneQ s

theorem Hyp3wQ.of_hyp3wB {cfg : JointConfig} {c0 : Nat} {h : List Sys} (H : Hyp3wB cfg c0 h) :
    Hyp3wQ cfg c0 h :=
  { hist := H.hist, fix := H.fix, ne := H.ne, nd1 := H.nd1, nd2 := H.nd2, init := H.init,
    steps := H.steps, nosnap := H.nosnap, mv := H.mv, nolone := H.nolone, shape := H.shape,
    initc := H.initc, c0z := H.c0z, snapt0 := H.snapt0,
    saneq := fun s hs => SaneQ.of_nosq (H.nosq s hs) }

variable {cfg : JointConfig} {c0 : Nat} {h : List Sys}

/-- the hypotheses without gaps (and without `NoBatch`) are closed under taking a non-empty prefix
(`History.take`, `get_take`, `take_get` are those of `ClusterCommit4J.lean`) -/
theorem Hyp3wQ.take (H : Hyp3wQ cfg c0 h) {k : Nat} (hk : 0 < k) : Hyp3wQ cfg c0 (h.take k) where
  hist := History.take H.hist k hk
  fix := fun s hs => H.fix s (List.mem_of_mem_take hs)
  ne := H.ne
  nd1 := H.nd1
  nd2 := H.nd2
  init := fun s h0 => H.init s (get_take h0).1
  steps := fun n a b ha hb => H.steps n a b (get_take ha).1 (get_take hb).1
  nosnap := fun s hs => H.nosnap s (List.mem_of_mem_take hs)
  mv := H.mv
  nolone := H.nolone
  shape := fun s hs => H.shape s (List.mem_of_mem_take hs)
  initc := fun s h0 => H.initc s (get_take h0).1
  c0z := H.c0z
  snapt0 := fun s0 h0 => H.snapt0 s0 (get_take h0).1
  saneq := fun s hs => H.saneq s (List.mem_of_mem_take hs)

/-- **`SaneAnchors` from the cluster invariant and `saneq`**: at a node without a queued `MsgSnapshot` a
queued `MsgAppend` is anchored (`CI.qa`, and `c0 = 0`); at a node with one, `saneq` says so -/
theorem sane_of_ciK (H : Hyp3wQ cfg c0 h) {s : Sys} (hs : s ∈ h) {m : Nat} (hci : CI h c0 m s) :
    SaneAnchors s := by
  intro i st hi x hx hty hz
  rcases hci.qa i st hi x hx hty with q | c | c
  · exact H.saneq s hs i st hi q x hx hty hz
  · exact absurd hz c
  · have := H.c0z; omega

/-- `Hyp2wB` for a prefix all of whose states satisfy `CI` -/
theorem hyp2wB_takeK (H : Hyp3wQ cfg c0 h) {k : Nat} (hk : 0 < k)
    (hci : ∀ m s, m < k → h[m]? = some s → CI h c0 m s) : Hyp2wB cfg c0 (h.take k) where
  hist := History.take H.hist k hk
  fix := fun s hs => H.fix s (List.mem_of_mem_take hs)
  ne := H.ne
  nd1 := H.nd1
  nd2 := H.nd2
  init := fun s h0 => H.init s (get_take h0).1
  steps := fun n a b ha hb => H.steps n a b (get_take ha).1 (get_take hb).1
  nosnap := fun s hs => H.nosnap s (List.mem_of_mem_take hs)
  mv := H.mv
  sane := by
    intro s hs
    obtain ⟨m, hm⟩ := List.mem_iff_getElem?.1 hs
    obtain ⟨hm', hlt⟩ := get_take hm
    exact sane_of_ciK H (mem_of_get hm') (hci m s hlt hm')
  nolone := H.nolone
  shape := fun s hs => H.shape s (List.mem_of_mem_take hs)
  initc := fun s h0 => H.initc s (get_take h0).1
  c0z := H.c0z

/-- the hypotheses of the main induction for a prefix all of whose states satisfy `CI` -/
theorem hyp3a_takeK (H : Hyp3wQ cfg c0 h) {k : Nat} (hk : 0 < k)
    (hci : ∀ m s, m < k → h[m]? = some s → CI h c0 m s) : Hyp3aB cfg c0 (h.take k) where
  toHyp2wB := hyp2wB_takeK H hk hci
  anch := by
    intro s hs x hx hty
    obtain ⟨m, hm⟩ := List.mem_iff_getElem?.1 hs
    obtain ⟨hm', hlt⟩ := get_take hm
    exact (hci m s hlt hm').na x hx hty
  rirs := by
    intro n s hn x hx hty
    obtain ⟨hn', hlt⟩ := get_take hn
    obtain ⟨n0, s0, w, stw, h1, h2, h3⟩ := (hci n s hlt hn').nr x hx hty
    exact ⟨n0, s0, w, stw, h1, by rw [take_get (by omega)]; exact h2, h3⟩
  snapt0 := fun s0 h0 => H.snapt0 s0 (get_take h0).1

theorem ci_initK (H : Hyp3wQ cfg c0 h) {s : Sys} (h0 : h[0]? = some s) : CI h c0 0 s := by
  have hinit := hist_init H.hist s h0
  have hq : ∀ i st, s.node i = some st → NodeI st ∧ st.raft.msgs = [] := by
    intro i st hi
    obtain ⟨c, store, rnd, _, hb⟩ := hinit.2 i st hi
    exact NodeI.boot hb
  refine ⟨fun i st hi => (hq i st hi).1, fun i st hi x hx => ?_, fun i st hi x hx => ?_,
    fun x hx => ?_, fun x hx => ?_⟩
  · rw [(hq i st hi).2] at hx; cases hx
  · rw [(hq i st hi).2] at hx; cases hx
  · rw [hinit.1] at hx; cases hx
  · rw [hinit.1] at hx; cases hx

/-- a `call` / `deliver` step keeps the cluster invariant -/
theorem ci_callK (H : Hyp3wQ cfg c0 h) {n : Nat} {a : Sys} (ha : h[n]? = some a)
    (H' : Hyp3aB cfg c0 (h.take (n + 1))) (ca : CI h c0 n a)
    {k : Nat} {st st' : NState} {rnd : Option Nat} {op : NodeOp} {res : OpRes}
    (h1 : a.node k = some st)
    (hop : appOp op = true ∨ ∃ m, op = .step m ∧ m ∈ a.net ∧ m.to = k)
    (hnc : ∀ j, op ≠ .compact j) (h4 : Node.call st rnd op = .ok (res, st'))
    (hb : h[n + 1]? = some (a.setNode k st')) : CI h c0 (n + 1) (a.setNode k st') := by
  -- everything about the state `a` comes from the prefix; the successor state is not in it
  have H2 := H'.toHyp2wB
  obtain ⟨s0, _, hall⟩ := H2.toHypB.invLB
  have ha' : (h.take (n + 1))[n]? = some a := by rw [take_get (Nat.lt_succ_self n)]; exact ha
  have I := (hall a (mem_of_get ha')).1
  have B := (hall a (mem_of_get ha')).2
  have hkb : (a.setNode k st').node k = some st' := node_setNode_self a k st'
  have hop' : op ≠ .drain ∧ ∀ m, op ≠ .rstep m := by
    rcases hop with g1 | ⟨m, g1, _⟩
    · constructor
      · intro hc; rw [hc] at g1; cases g1
      · intro m hc; rw [hc] at g1; cases g1
    · rw [g1]
      exact ⟨(by intro hc; cases hc), (by intro m' hc; cases hc)⟩
  have hms : ∀ m, op = .step m → m.msgType ≠ .msgSnapshot := by
    intro m hm
    rcases hop with g1 | ⟨m', g1, g2, _⟩
    · rw [hm] at g1; cases g1
    · rw [hm] at g1; cases g1; exact H.nosnap a (mem_of_get ha) m g2
  have hB : ∀ m, op = .step m → st.raft.state = .leader → m.msgType = .msgAppendResponse →
      m.reject = false → (m.term = 0 ∨ m.term = st.raft.term) →
      m.index ≤ st.raft.raftLog.lastIndex := by
    intro m hm hs hty hrej ht
    rcases hop with g1 | ⟨m', g1, g2, _⟩
    · rw [hm] at g1; cases g1
    · rw [hm] at g1; cases g1
      exact ack_bound H' ha' h1 hs g2 ⟨hty, hrej⟩ ht
  have hinv := I.inv k st h1
  have hpr := PB.call_prb st st' rnd op res hinv hop' hnc
    (H.shape a (mem_of_get ha) k st h1).1 hms (ca.node k st h1).po (ca.node k st h1).rd hB h4
  have hop1 : appOp op = true ∨ ∃ m, op = .step m ∧ m ∈ a.net := by
    rcases hop with g1 | ⟨m, g1, g2, _⟩
    · exact .inl g1
    · exact .inr ⟨m, g1, g2⟩
  have g := kstep_gb (H2.toHypB.mokc n a ha') (H.nosnap a (mem_of_get ha)) h1 hop1 h4
  -- the per-call layer of the Log Matching proof with batching; its proviso needs the Election
  -- Safety invariants only, which hold along the whole history
  obtain ⟨all1, all2, _⟩ := hist_all H.hist
  have rt := call_rt st st' rnd op res hinv hop' h4
  have hp0 := prov0_of_inv H.nd1 H.nd2 H.mv B (all1 a (mem_of_get ha)) (all1 _ (mem_of_get hb))
    (all2 cfg H.fix _ (mem_of_get hb)) h1 hkb rfl rt
  have hw : ∀ m, op = .step m → m.msgType = .msgAppend → MsgOk m := by
    intro m hm hty
    rcases hop with g1 | ⟨m', g1, g2, _⟩
    · rw [hm] at g1; cases g1
    · rw [hm] at g1; cases g1
      exact I.msgOk g2 hty
  have hL := call_lstep_b st st' rnd op res hinv hp0.2 hop' hw (fun j hj => absurd hj (hnc j)) h4
  have hinv' : st'.raft.raftLog.Inv := hL.eff.inv
  have hsnap' : st'.raft.raftLog.abs.snapIdx = c0 := by
    obtain ⟨s1, s2⟩ := H.shape _ (mem_of_get hb) k st' hkb
    rw [RaftLog.abs_none s1]; show st'.raft.raftLog.store.firstIndex - 1 = c0; omega
  -- no entry of term 0 in the log of a node that is leader after the call
  have hnz : st'.raft.state = .leader → ∀ i e, st'.raft.raftLog.abs.entryAt i = some e →
      e.term ≠ 0 := by
    intro hs i e he
    rcases hL.eff.log with c | ⟨es, c⟩ | ⟨_, c, _⟩
    · exact I.nz (.log k) _ (at_log h1) i e (c i e he).1
    · rw [c.abs] at he
      have hmem : e ∈ st.raft.raftLog.abs.ents ++ es := LLog.entryAt_mem _ he
      rcases List.mem_append.1 hmem with d | d
      · exact I.nz (.log k) _ (at_log h1) e.index e ((abs_Contig hinv).entryAt_of_mem d)
      · rw [c.terms e d]
        obtain ⟨ht, hc⟩ := hp0.1 hs
        rw [← ht]
        exact I.tz k st h1 (hc.elim (fun c => .inl c.1) .inr)
    · exact absurd hs c
  have hsnq : QSnap st.raft.msgs → QSnap st'.raft.msgs := by
    rintro ⟨y, hy, hty⟩
    exact ⟨y, hpr.sn y hy hty, hty⟩
  -- the nodes
  have hnode : ∀ i sti, (a.setNode k st').node i = some sti →
      (i = k ∧ sti = st') ∨ (i ≠ k ∧ a.node i = some sti) := by
    intro i sti hi
    by_cases hik : i = k
    · subst hik
      rw [node_setNode_self] at hi; cases hi
      exact .inl ⟨rfl, rfl⟩
    · rw [node_setNode_ne a k i st' hik] at hi
      exact .inr ⟨hik, hi⟩
  refine ⟨fun i sti hi => ?_, fun i sti hi x hx hty => ?_, fun i sti hi x hx hty => ?_,
    ca.na, fun x hx hty => (ca.nr x hx hty).mono (Nat.le_succ n)⟩
  · rcases hnode i sti hi with ⟨_, rfl⟩ | ⟨_, c⟩
    · exact ⟨hpr.po, hpr.rd⟩
    · exact ca.node i sti c
  · rcases hnode i sti hi with ⟨_, rfl⟩ | ⟨_, c⟩
    · have hold : ∀ y ∈ st.raft.msgs, y.msgType = .msgAppend → y.index = x.index →
          y.logTerm = x.logTerm → QSnap sti.raft.msgs ∨ Anch c0 x := by
        intro y hy hyt hi hl
        rcases ca.qa k st h1 y hy hyt with d | d
        · exact .inl (hsnq d)
        · right; unfold Anch at d ⊢; rw [← hi, ← hl]; exact d
      rcases hpr.qa x hx hty with ⟨y, hy, hyt, hi, hl⟩ | c | c
      · exact hold y hy hyt hi hl
      · exact .inl c
      · rcases g.qlk x hx (by rw [hty]; rfl) with d | d | ⟨_, _, y, hy, hyt, es, cc, hxe⟩
        · exact hold x d hty rfl rfl
        · right
          by_cases hc0 : x.index ≤ c0
          · exact .inr hc0
          · left
            have hterm := (d.app hty).2
            rw [hinv'.term_abs] at hterm
            obtain ⟨e, he⟩ := sti.raft.raftLog.abs.entryAt_exists (i := x.index)
              (by rw [hsnap']; omega) (by rw [← hinv'.lastIndex_abs]; exact c)
            rw [sti.raft.raftLog.abs.term_of_entry he] at hterm
            injection hterm with hterm
            rw [← hterm]
            exact hnz d.lead x.index e he
        · -- a message of the start queue that was batched onto keeps its anchor
          exact hold y hy hyt (by rw [hxe]) (by rw [hxe])
    · exact ca.qa i sti c x hx hty
  · rcases hnode i sti hi with ⟨_, rfl⟩ | ⟨_, c⟩
    · have hold : x ∈ st.raft.msgs → RirSrc h (n + 1) x :=
        fun hxo => (ca.qr k st h1 x hxo hty).mono (Nat.le_succ n)
      rcases hpr.qr x hx hty with c | c
      · exact hold c
      · rcases g.qlk x hx (by rw [hty]; rfl) with d | d | ⟨_, _, y, _, hbat⟩
        · exact hold d
        · exact ⟨n + 1, _, k, sti, Nat.le_refl _, hb, hkb, d.lead, d.term.symm, c⟩
        · rw [hbat.msgType] at hty; cases hty
    · exact (ca.qr i sti c x hx hty).mono (Nat.le_succ n)

/-- **one step of the history keeps the cluster invariant** -/
theorem ci_stepK (H : Hyp3wQ cfg c0 h) {n : Nat} {a b : Sys} (ha : h[n]? = some a)
    (hb : h[n + 1]? = some b) (H' : Hyp3aB cfg c0 (h.take (n + 1))) (ca : CI h c0 n a) :
    CI h c0 (n + 1) b := by
  have hnosnap := H.nosnap b (mem_of_get hb)
  cases H.steps n a b ha hb with
  | call k st st' rnd op res h1 h2 h3 _ h4 =>
    exact ci_callK H ha H' ca h1 (.inl h2) h3 h4 hb
  | deliver k st st' rnd m res h1 h2 h3 h4 =>
    exact ci_callK H ha H' ca h1 (.inr ⟨m, rfl, h2, h3⟩) (fun j hc => by cases hc) h4 hb
  | send k st st' h1 h2 _ h3 =>
    have hf : st'.raft.msgs = [] ∧ st'.raft.raftLog = st.raft.raftLog ∧
        st'.raft.state = st.raft.state ∧ st'.raft.prs = st.raft.prs ∧
        st'.raft.readOnly = st.raft.readOnly := by
      unfold Node.call at h3
      simp only [applyOp] at h3
      cases h3; exact ⟨rfl, rfl, rfl, rfl, rfl⟩
    obtain ⟨f1, f2, f3, f4, f5⟩ := hf
    -- the queue that is handed over holds no `MsgSnapshot`
    have hns : ¬ QSnap st.raft.msgs := by
      rintro ⟨y, hy, hty⟩
      exact hnosnap y (List.mem_append_right _ hy) hty
    have hnode : ∀ i sti, ({ (a.setNode k st') with net := a.net ++ st.raft.msgs } : Sys).node i =
        some sti → (i = k ∧ sti = st') ∨ (i ≠ k ∧ a.node i = some sti) := by
      intro i sti hi
      have hi' : (a.setNode k st').node i = some sti := hi
      by_cases hik : i = k
      · subst hik
        rw [node_setNode_self] at hi'; cases hi'
        exact .inl ⟨rfl, rfl⟩
      · rw [node_setNode_ne a k i st' hik] at hi'
        exact .inr ⟨hik, hi'⟩
    refine ⟨fun i sti hi => ?_, fun i sti hi x hx hty => ?_, fun i sti hi x hx hty => ?_,
      fun x hx hty => ?_, fun x hx hty => ?_⟩
    · rcases hnode i sti hi with ⟨_, rfl⟩ | ⟨_, c⟩
      · refine ⟨fun hs => ?_, fun hs => ?_⟩
        · rw [f3] at hs
          rcases (ca.node k st h1).po hs with d | d
          · exact absurd d hns
          · right; rw [f2, f4]; exact d
        · rw [f3] at hs
          rw [f2, f5]; exact (ca.node k st h1).rd hs
      · exact ca.node i sti c
    · rcases hnode i sti hi with ⟨_, rfl⟩ | ⟨_, c⟩
      · rw [f1] at hx; cases hx
      · exact ca.qa i sti c x hx hty
    · rcases hnode i sti hi with ⟨_, rfl⟩ | ⟨_, c⟩
      · rw [f1] at hx; cases hx
      · exact (ca.qr i sti c x hx hty).mono (Nat.le_succ n)
    · have hx' : x ∈ a.net ++ st.raft.msgs := hx
      rcases List.mem_append.1 hx' with c | c
      · exact ca.na x c hty
      · rcases ca.qa k st h1 x c hty with d | d
        · exact absurd d hns
        · exact d
    · have hx' : x ∈ a.net ++ st.raft.msgs := hx
      rcases List.mem_append.1 hx' with c | c
      · exact (ca.nr x c hty).mono (Nat.le_succ n)
      · exact (ca.qr k st h1 x c hty).mono (Nat.le_succ n)
  | restart k st st' c rnd h1 h2 h3 =>
    obtain ⟨g1, g2⟩ := NodeI.boot h3
    have hnode : ∀ i sti, (a.setNode k st').node i = some sti →
        (i = k ∧ sti = st') ∨ (i ≠ k ∧ a.node i = some sti) := by
      intro i sti hi
      by_cases hik : i = k
      · subst hik
        rw [node_setNode_self] at hi; cases hi
        exact .inl ⟨rfl, rfl⟩
      · rw [node_setNode_ne a k i st' hik] at hi
        exact .inr ⟨hik, hi⟩
    refine ⟨fun i sti hi => ?_, fun i sti hi x hx hty => ?_, fun i sti hi x hx hty => ?_,
      ca.na, fun x hx hty => (ca.nr x hx hty).mono (Nat.le_succ n)⟩
    · rcases hnode i sti hi with ⟨_, rfl⟩ | ⟨_, c⟩
      · exact g1
      · exact ca.node i sti c
    · rcases hnode i sti hi with ⟨_, rfl⟩ | ⟨_, c⟩
      · rw [g2] at hx; cases hx
      · exact ca.qa i sti c x hx hty
    · rcases hnode i sti hi with ⟨_, rfl⟩ | ⟨_, c⟩
      · rw [g2] at hx; cases hx
      · exact (ca.qr i sti c x hx hty).mono (Nat.le_succ n)

/-- **the cluster invariant holds in every state of a history** -/
theorem ci_allK (H : Hyp3wQ cfg c0 h) : ∀ (n : Nat) (s : Sys), h[n]? = some s → CI h c0 n s := by
  intro n
  induction n using Nat.strongRecOn with
  | _ n ih =>
    intro s hn
    cases n with
    | zero => exact ci_initK H hn
    | succ n =>
      have hlt : n + 1 < h.length := by
        rcases Nat.lt_or_ge (n + 1) h.length with c | c
        · exact c
        · rw [List.getElem?_eq_none c] at hn; cases hn
      have ha : h[n]? = some h[n] := List.getElem?_eq_some_iff.2 ⟨by omega, rfl⟩
      have H' : Hyp3aB cfg c0 (h.take (n + 1)) :=
        hyp3a_takeK H (Nat.succ_pos n) (fun m s hm hs => ih m hm s hs)
      exact ci_stepK H ha hn H' (ih n (Nat.lt_succ_self n) _ ha)

/-- **the former proof gaps `anch` and `norir` are theorems**: the hypotheses of the main induction
follow from the hypotheses without gaps about the transport -/
theorem Hyp3wQ.toHyp3aB (H : Hyp3wQ cfg c0 h) : Hyp3aB cfg c0 h := by
  have hpos : 0 < h.length := List.length_pos_iff.2 (History.ne_nil H.hist)
  have := hyp3a_takeK H hpos (fun m s _ hs => ci_allK H m s hs)
  rw [List.take_length] at this
  exact this

/-- **the components of the main induction hold in every state**, from the hypotheses without gaps
about the transport and without `NoBatch` -/
theorem sm_all_wK (H : Hyp3wQ cfg c0 h) {n : Nat} {s : Sys} (hn : h[n]? = some s) : Sm h c0 n s :=
  sm_all H.toHyp3aB hn

end ClusterB
end RaftModel
