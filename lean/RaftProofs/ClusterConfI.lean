import RaftProofs.ClusterConfH

/-!
C09 at the cluster level, part I: the leader discipline along histories (under the log invariant of
the nodes and the compaction contract), and what the proposal filter lets through.
-/
namespace RaftModel
namespace Raft
open VoteOb Node RaftProps.C09

/-- **a proposal that appends a membership-change entry**: on a leader with `ConfBounded`, if
`step_leader` on a `MsgPropose` leaves a membership-change entry at an index beyond the old last
index, then before the call the log held NO membership-change entry beyond the apply cursor -/
theorem stepLeader_appends_conf {r r' : Raft} {m : Message} {e : Option RaftError}
    (hinv : r.raftLog.Inv) (hap : r.raftLog.applied ≤ r.raftLog.lastIndex)
    (hs : r.state = .leader) (hm : m.msgType = .msgPropose) (hb : ConfBounded r)
    (h : r.stepLeader m = .ok (r', e)) (x : Nat) (e' : Entry) (hx : r.raftLog.lastIndex < x)
    (hx' : r'.raftLog.abs.entryAt x = some e') (hc' : isConf e') :
    ∀ i e0, r.raftLog.abs.entryAt i = some e0 → isConf e0 → i ≤ r.raftLog.applied := by
  have old_none : ∀ {r2 : Raft}, r2.raftLog.abs = r.raftLog.abs →
      r2.raftLog.abs.entryAt x = some e' → False := by
    intro r2 ha hx2
    rw [ha] at hx2
    have := (r.raftLog.abs.entryAt_lt hx2).2
    have hla := hinv.lastIndex_abs
    simp only [LLog.lastIndex] at hla this
    omega
  rcases c09_stepLeader_propose hinv hs hm h with ⟨h1, _⟩ | ⟨r1, oes, hf, hc⟩
  · exact (old_none (by rw [h1]) hx').elim
  · obtain ⟨hF, hlog⟩ := c09_filterOut hap hf
    rcases hc with ⟨h1, _⟩ | ⟨es, ho, _, hcf, hl | hA⟩
    · exact (old_none (by rw [h1, hlog]) hx').elim
    · exact (old_none (by rw [hl.abs, hlog]) hx').elim
    · subst ho
      have hinv1 : r1.raftLog.Inv := by rw [hlog]; exact hinv
      rcases c09_appended_entryAt hinv1 hA x e' hx' with ⟨h1, _⟩ | ⟨_, h2⟩
      · rw [hlog] at h1; omega
      · obtain ⟨e0, he0, hc0⟩ := c09_stamp_conf h2 hc'
        rcases hF with ⟨_, g2⟩ | ⟨g0, _⟩
        · exact absurd hc0 (g2 es rfl e0 (List.mem_of_getElem? he0))
        · exact C09_no_unapplied_change_when_not_pending r hb g0

/-- the same through `Raft::step` for a local proposal (`RawNode::propose` /
`RawNode::propose_conf_change`: term 0) on a leader -/
theorem step_propose_appends_conf {r r' : Raft} {m : Message} {e : Option RaftError}
    (hinv : r.raftLog.Inv) (hap : r.raftLog.applied ≤ r.raftLog.lastIndex)
    (hs : r.state = .leader) (hm : m.msgType = .msgPropose) (h0 : m.term = 0) (hb : ConfBounded r)
    (h : r.step m = .ok (r', e)) (x : Nat) (e' : Entry) (hx : r.raftLog.lastIndex < x)
    (hx' : r'.raftLog.abs.entryAt x = some e') (hc' : isConf e') :
    ∀ i e0, r.raftLog.abs.entryAt i = some e0 → isConf e0 → i ≤ r.raftLog.applied := by
  obtain ⟨r1, b, ht, hc⟩ := c02_step_cases h
  have hr1 : r1 = r := by
    rcases c02_stepTerm_cases ht with ⟨e1, _⟩ | ⟨_, _, hne, _⟩ | ⟨_, hlt, _⟩
    · exact e1
    · exact absurd h0 hne
    · omega
  subst hr1
  have old_none : r'.raftLog.abs = r1.raftLog.abs → False := by
    intro ha
    rw [ha] at hx'
    have := (r1.raftLog.abs.entryAt_lt hx').2
    have hla := hinv.lastIndex_abs
    simp only [LLog.lastIndex] at hla this
    omega
  rcases hc with ⟨_, e1⟩ | ⟨_, ⟨hm', _⟩ | ⟨hm', _⟩ | ⟨_, _, _, ⟨hs', _⟩ | ⟨hs', _⟩ | ⟨_, hl⟩⟩⟩
  · exact (old_none (by rw [e1])).elim
  · rw [hm] at hm'; cases hm'
  · rcases hm' with q | q <;> (rw [hm] at q; cases q)
  · rcases hs' with g | g <;> (rw [hs] at g; cases g)
  · rw [hs] at hs'; cases hs'
  · exact stepLeader_appends_conf hinv hap hs hm hb hl x e' hx hx' hc'

end Raft

namespace Cluster
open Node Raft RaftProps.C09

/-- the log of every node satisfies the representation invariant and its apply cursor is within it -/
def LogOk (s : Sys) : Prop :=
  ∀ i st, s.node i = some st →
    st.raft.raftLog.Inv ∧ st.raft.raftLog.applied ≤ st.raft.raftLog.lastIndex

/-- every node in the leader role has `ConfBounded` -/
def LBAll (s : Sys) : Prop := ∀ i st, s.node i = some st → LB st.raft

theorem LBAll.init {s : Sys} (h : Init s) : LBAll s := by
  intro i st hi hl
  obtain ⟨c, store, rnd, _, hb⟩ := h.2 i st hi
  rw [(CV.boot_booted c store rnd st hb).state] at hl; cases hl

theorem LBAll.setNode {s : Sys} (h : LBAll s) (k : Nat) (st' : NState) (hk : LB st'.raft) :
    LBAll (s.setNode k st') := by
  intro i st hi
  by_cases hik : i = k
  · subst hik
    rw [node_setNode_self] at hi; cases hi; exact hk
  · rw [node_setNode_ne s k i st' hik] at hi
    exact h i st hi

theorem LBAll.cstep {s s' : Sys} (hlog : LogOk s) (h : LBAll s) (hs : CStep s s') : LBAll s' := by
  cases hs with
  | call i st st' rnd op res h1 _ hc h3 =>
    obtain ⟨g1, g2⟩ := hlog i st h1
    exact h.setNode i st' (call_lb st st' rnd op res g1 g2 hc (h i st h1) h3)
  | deliver i st st' rnd m res h1 _ _ h4 =>
    obtain ⟨g1, g2⟩ := hlog i st h1
    exact h.setNode i st' (call_lb st st' rnd (.step m) res g1 g2 (fun _ hc => by cases hc)
      (h i st h1) h4)
  | send i st st' h1 _ h3 =>
    obtain ⟨g1, g2⟩ := hlog i st h1
    have := h.setNode i st' (call_lb st st' none .drain _ g1 g2 (fun _ hc => by cases hc)
      (h i st h1) h3)
    intro j stj hj
    exact this j stj hj
  | restart i st st' c rnd h1 _ h3 =>
    refine h.setNode i st' ?_
    intro hl
    rw [(CV.boot_booted c _ rnd st' h3).state] at hl; cases hl

theorem hist_zero_init {h : List Sys} (hh : History h) : ∀ s, h[0]? = some s → Init s := by
  induction hh with
  | init s hs =>
    intro x hx
    simp only [List.getElem?_cons_zero, Option.some.injEq] at hx
    subst hx; exact hs
  | step l a b _ _ ih =>
    intro x hx
    apply ih
    have hl : l ++ [a, b] = (l ++ [a]) ++ [b] := by simp
    rw [hl, List.getElem?_append_left (by simp)] at hx
    exact hx

/-- **the leader discipline in every state of a history** whose nodes' logs satisfy the representation
invariant and whose `compact` calls obey the storage contract -/
theorem lb_hist {h : List Sys} (hh : History h) (hlog : ∀ s ∈ h, LogOk s)
    (hcon : ∀ (n : Nat) (a b : Sys), h[n]? = some a → h[n + 1]? = some b → CStep a b) :
    ∀ (n : Nat) (s : Sys), h[n]? = some s → LBAll s := by
  intro n
  induction n with
  | zero => intro s hs; exact LBAll.init (hist_zero_init hh s hs)
  | succ n ih =>
    intro s hs
    have hlt : n + 1 < h.length := by
      apply Classical.byContradiction
      intro hc
      rw [List.getElem?_eq_none (by omega)] at hs
      cases hs
    have ha : h[n]? = some h[n] := List.getElem?_eq_getElem (by omega)
    exact (ih _ ha).cstep (hlog _ (List.getElem_mem _)) (hcon n _ s ha hs)

end Cluster
end RaftModel
