import RaftProofs.ClusterFlowD
import RaftProofs.ClusterFlowM
import RaftProofs.ClusterCommit3H

/-!
Cluster-level flow control (C13), part X: **a concrete history** (kernel-evaluated) for the
non-vacuity of `RaftProps/C13c.lean`: the 15-state history of `C01_cluster_nonvacuous`
(`RaftProofs/ClusterCommit3H.lean`: node 1 is elected leader of term 1, replicates its empty entry to
node 2, receives node 2's acknowledgement — which moves node 2's progress to `Replicate` — and
commits index 1) continued by three steps:

* the application of node 1 proposes an entry, which the leader appends and sends to node 2 as an
  entry-carrying `MsgAppend`, **recording index 2 in the in-flight window of node 2's progress**
  (`count = 1`, `cap = 256`);
* `ping` at node 1: the leader queues heartbeats, the one to node 2 advertising
  `min(matched, committed) = 1`;
* node 1 hands its queue to the transport.

The history satisfies `Hyp3` (hence `Hyp`, `Hyp3w`).
-/
namespace RaftModel
namespace Cluster
open Node Raft Raft.CC RaftProps.C02 RaftProps.C05

def c13x_a9 := c02x_st (Node.call c01x_a8 none (.propose [] [1]))
def c13x_s15 : Sys := c01x_s14.setNode 1 c13x_a9
def c13x_a10 := c02x_st (Node.call c13x_a9 none .ping)
def c13x_s16 : Sys := c13x_s15.setNode 1 c13x_a10
def c13x_a11 := c02x_st (Node.call c13x_a10 none .drain)
def c13x_s17 : Sys :=
  { (c13x_s16.setNode 1 c13x_a11) with net := c13x_s16.net ++ c13x_a10.raft.msgs }
/-- the heartbeat of node 1 to node 2 -/
def c13x_hb :=
  (c13x_a10.raft.msgs.filter (fun x => x.msgType == .msgHeartbeat && x.to == 2)).head!
def c13x_hist : List Sys := c01x_hist ++ [c13x_s15] ++ [c13x_s16] ++ [c13x_s17]

theorem Chained.snoc {R : Sys → Sys → Prop} {a b : Sys} (hab : R a b) :
    ∀ l : List Sys, Chained R (l ++ [a]) → Chained R (l ++ [a, b]) := by
  intro l
  induction l with
  | nil => intro _; exact ⟨hab, trivial⟩
  | cons x t ih =>
    intro hc
    cases t with
    | nil => exact ⟨hc.1, hab, trivial⟩
    | cons y t' => exact ⟨hc.1, ih hc.2⟩

theorem Chained.snoc' {R : Sys → Sys → Prop} {a b : Sys} (hab : R a b) (l : List Sys)
    (hc : Chained R (l ++ [a])) : Chained R (l ++ [a] ++ [b]) := by
  rw [List.append_assoc]; exact Chained.snoc hab l hc

set_option maxRecDepth 100000 in
theorem c13x_step15 : KStep c01x_s14 c13x_s15 :=
  KStep.call _ 1 c01x_a8 c13x_a9 none (.propose [] [1]) _ rfl rfl
    (fun k hc => by cases hc) (fun k hc => by cases hc) (c02x_out _ (by decide))

set_option maxRecDepth 100000 in
theorem c13x_step16 : KStep c13x_s15 c13x_s16 :=
  KStep.call _ 1 c13x_a9 c13x_a10 none .ping _ rfl rfl
    (fun k hc => by cases hc) (fun k hc => by cases hc) (c02x_out _ (by decide))

set_option maxRecDepth 100000 in
theorem c13x_step17 : KStep c13x_s16 c13x_s17 :=
  KStep.send _ 1 c13x_a10 c13x_a11 rfl ⟨by decide, by decide⟩
    (fun hne => absurd (by decide : c13x_a10.raft.state = .leader) hne) rfl

theorem c13x_ksteps : Chained KStep c13x_hist :=
  Chained.snoc' c13x_step17 _ (Chained.snoc' c13x_step16 _
    (Chained.snoc' c13x_step15 (c05x_hist ++ [c01x_s11, c01x_s12, c01x_s13]) c01x_ksteps))

theorem c13x_history : History c13x_hist := by
  have := chained_history [] c02x_s0 (History.init _ c02x_init) _
    (Chained.mono (fun _ _ hc => hc.step) _ c13x_ksteps)
  simpa [c13x_hist, c01x_hist, c05x_hist, c02x_hist] using this

set_option maxRecDepth 100000 in
theorem c13x_chk_last : c01x_chk c13x_s15 = true ∧ c01x_chk c13x_s16 = true ∧
    c01x_chk c13x_s17 = true := by
  refine ⟨?_, ?_, ?_⟩ <;> decide

theorem c13x_chk_all : ∀ s ∈ c13x_hist, c01x_chk s = true := by
  intro s hs
  simp only [c13x_hist, List.mem_append, List.mem_singleton] at hs
  rcases hs with ((c | c) | c) | c
  · exact c01x_chk_all s c
  · rw [c]; exact c13x_chk_last.1
  · rw [c]; exact c13x_chk_last.2.1
  · rw [c]; exact c13x_chk_last.2.2

set_option maxRecDepth 100000 in
/-- **the extended history satisfies every hypothesis of the commit layer** -/
theorem c13x_hyp3 : Hyp3 c02x_cfg 0 c13x_hist := by
  have h0 : c13x_hist[0]? = some c02x_s0 := rfl
  have hall := fun s hs => c01x_chk_ok s (c13x_chk_all s hs)
  have hnode : ∀ s ∈ c13x_hist, ∀ i st, s.node i = some st →
      st.raft.raftLog.unstable.snapshot = none ∧ st.raft.raftLog.store.firstIndex = 1 ∧
      (st.raft.raftLog.abs.snapTerm = some 0 ∨ st.raft.raftLog.abs.snapTerm = none) := by
    intro s hs i st hi
    have := (hall s hs).2.2.2 i st hi
    unfold c01x_nodeOk at this
    simp only [Bool.and_eq_true, Bool.or_eq_true, decide_eq_true_eq, Option.isNone_iff_eq_none] at this
    exact ⟨this.1.1, this.1.2, this.2⟩
  refine ⟨⟨⟨⟨c13x_history, fun s hs => (hall s hs).1, by decide, by decide, by decide, ?_,
    chained_at _ c13x_ksteps, fun s hs => (hall s hs).2.1, fun s hs x hx => ((hall s hs).2.2.1 x hx).1⟩,
    c01x_nolone, fun s hs i st hi => ⟨(hnode s hs i st hi).1, (hnode s hs i st hi).2.1⟩, ?_⟩,
    fun s hs x hx => ((hall s hs).2.2.1 x hx).2.1⟩,
    fun s hs x hx => ((hall s hs).2.2.1 x hx).2.2, ?_⟩
  · intro s hs
    rw [h0] at hs; cases hs
    exact c05x_initOk
  · intro s hs i st hi
    rw [h0] at hs; cases hs
    have hm := c02_lookup_mem _ i st hi
    simp only [c02x_s0, List.mem_cons, Prod.mk.injEq, List.not_mem_nil, or_false] at hm
    rcases hm with ⟨rfl, rfl⟩ | ⟨rfl, rfl⟩ | ⟨rfl, rfl⟩ <;> decide
  · intro s hs i st hi t0 ht0 j st0 _
    rcases (hnode s (mem_of_get hs) i st hi).2.2 with c | c
    · rw [c] at ht0; cases ht0; exact Nat.zero_le _
    · rw [c] at ht0; cases ht0

/-- the progress node 1 keeps for node 2 in the last state -/
def c13x_pr2 : Progress := (c13x_a9.raft.prs.progress.lookup 2).getD default

set_option maxRecDepth 100000 in
theorem c13x_window :
    c13x_hist[15]? = some c13x_s15 ∧ c13x_s15.node 1 = some c13x_a9 ∧
    c13x_a9.raft.state = .leader ∧ c13x_a9.raft.prs.get 2 = some c13x_pr2 ∧
    c13x_pr2.state = .replicate ∧ c13x_pr2.ins.count = 1 ∧ c13x_pr2.ins.cap = 256 ∧
    c13x_pr2.ins.contents = [2] := by
  refine ⟨rfl, rfl, ?_, ?_, ?_, ?_, ?_, ?_⟩ <;> decide

set_option maxRecDepth 100000 in
/-- the transport of the last state holds an entry-carrying `MsgAppend` of node 1 for term 1 (the one
node 2 acknowledged), and the queue of node 1 holds the entry-carrying `MsgAppend` of the proposal,
advertising commit index 1 -/
theorem c13x_appends :
    (c05x_app ∈ c13x_s15.net ∧ c05x_app.msgType = .msgAppend ∧ c05x_app.entries ≠ [] ∧
      c05x_app.frm = 1 ∧ c05x_app.term = 1) ∧
    (∃ x ∈ c13x_a9.raft.msgs, x.msgType = .msgAppend ∧ x.entries ≠ [] ∧ x.to = 2 ∧ x.commit = 1) := by
  refine ⟨⟨?_, by decide, by decide, by decide, by decide⟩, by decide⟩
  exact List.mem_append_left _ (List.mem_append_right _ (c02x_head_mem _ (by decide)))

set_option maxRecDepth 100000 in
/-- the transport of the last state holds the heartbeat of node 1 (term 1) to node 2, advertising
commit index 1 — the index node 2 acknowledged -/
theorem c13x_heartbeat :
    c13x_hist[17]? = some c13x_s17 ∧ c13x_hb ∈ c13x_s17.net ∧ c13x_hb.msgType = .msgHeartbeat ∧
    c13x_hb.frm = 1 ∧ c13x_hb.to = 2 ∧ c13x_hb.term = 1 ∧ c13x_hb.commit = 1 := by
  refine ⟨rfl, ?_, by decide, by decide, by decide, by decide, by decide⟩
  apply List.mem_append_right
  have : c13x_hb ∈ c13x_a10.raft.msgs.filter (fun x => x.msgType == .msgHeartbeat && x.to == 2) :=
    c02x_head_mem _ (by decide)
  exact (List.mem_filter.1 this).1

end Cluster
end RaftModel
