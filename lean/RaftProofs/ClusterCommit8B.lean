import RaftProofs.ClusterCommit7B
import RaftProofs.ClusterCommit8_6A
import RaftProofs.ClusterCommit8_C01k

/-!
C01m (route (1) of `RaftProps/C01l.REPORT.md`), hand-written part B: **from `Hyp3wL` to the bundles of the
copied layer**.  `ClusterB.M.Hyp3wQ` (copy of `Hyp3wQ` of `ClusterCommit6A.lean` **without `saneq`**) is
`Hyp3wL` plus the derived `mv`; `ClusterB.M.Hyp3wQ.toHyp3aB` (copy of the induction of 6A, which now also
derives the frame property `MonoS` of every step) gives the bundle `ClusterB.M.Hyp3aB` of the main induction,
hence `Cluster.M.InvL` (Log Matching for logs, storages, transport and the queues of non-mute nodes) in
every state.
-/
namespace RaftModel
namespace ClusterB
open Node Raft Raft.CC Raft.CP RaftProps.C02 Cluster

variable {cfg : JointConfig} {c0 : Nat} {h : List Sys}

/-- `Hyp3wL` is the bundle of the copied commit layer (`mv` is derived from `nolone`) -/
theorem Hyp3wL.toHyp3wQM (H : Hyp3wL cfg c0 h) : M.Hyp3wQ cfg c0 h :=
  { hist := H.hist, fix := H.fix, ne := H.ne, nd1 := H.nd1, nd2 := H.nd2, init := H.init,
    steps := H.steps, nosnap := H.nosnap, mv := multiVoter_of_nolone H.nolone, nolone := H.nolone,
    shape := H.shape, initc := H.initc, c0z := H.c0z, snapt0 := H.snapt0 }

/-- … and conversely -/
theorem Hyp3wL.of_hyp3wQM (H : M.Hyp3wQ cfg c0 h) : Hyp3wL cfg c0 h :=
  { hist := H.hist, fix := H.fix, ne := H.ne, nd1 := H.nd1, nd2 := H.nd2, init := H.init,
    steps := H.steps, nosnap := H.nosnap, nolone := H.nolone, shape := H.shape, initc := H.initc,
    c0z := H.c0z, snapt0 := H.snapt0 }

/-- **the hypotheses of the main induction (over the new `At`) follow from `Hyp3wL` alone** -/
theorem Hyp3wL.toHyp3aM (H : Hyp3wL cfg c0 h) : M.Hyp3aB cfg c0 h := H.toHyp3wQM.toHyp3aB

/-- the frame property of every step of a history under `Hyp3wL`: **a queued `MsgSnapshot` stays queued
until the queue is emptied** (`send`, restart) -/
theorem Hyp3wL.mono (H : Hyp3wL cfg c0 h) (n : Nat) (a b : Sys) (ha : h[n]? = some a)
    (hb : h[n + 1]? = some b) : Cluster.M.MonoS a b :=
  H.toHyp3aM.toHyp2wB.toHypB.mono n a b ha hb

/-- no queued `MsgAppend` of a **non-mute** node is anchored in the void -/
theorem Hyp3wL.sane (H : Hyp3wL cfg c0 h) : ∀ s ∈ h, Cluster.M.SaneAnchors s :=
  H.toHyp3aM.toHyp2wB.toHypB.sane

/-- **Log Matching (`Cluster.M.InvL`: logs, storages, transport, queues of non-mute nodes) and the queue
invariants `InvB` in every state**, batching on or off, nothing assumed about queues -/
theorem Hyp3wL.invLB (H : Hyp3wL cfg c0 h) :
    ∃ s0, h[0]? = some s0 ∧ ∀ s ∈ h, Cluster.M.InvL (Owner h) (Cluster.M.EntriesOf s0) s ∧ InvB s :=
  H.toHyp3aM.toHyp2wB.toHypB.invLB

end ClusterB
end RaftModel
