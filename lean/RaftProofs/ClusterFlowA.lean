import RaftProofs.RaftNodeC17
import RaftProofs.Inflights
import RaftProofs.ClusterCommit4A

/-!
Cluster-level flow control (C13), part A: the in-flight window invariant (`Inflights.Inv` of
`RaftProofs/Inflights.lean`, which contains `count ≤ cap`) through the `Inflights`, `Progress` and
`ProgressTracker` operations: `PI pr` ("the window of `pr` is well-formed") and `TOk t` ("every
progress of the tracker has a well-formed window").
-/
namespace RaftModel
namespace Raft
namespace FL

/-! ### the window operations keep the ring invariant -/

theorem add_inv {s s' : Inflights} {x : Nat} (h : s.Inv) (e : s.add x = .ok s') : s'.Inv := by
  cases hf : s.full with
  | true => rw [Inflights.add_full s x hf] at e; cases e
  | false =>
    obtain ⟨s1, e1, i1, _⟩ := Inflights.add_refines s h x hf
    rw [e1] at e; cases e; exact i1

theorem freeTo_inv {s s' : Inflights} {x : Nat} (h : s.Inv) (e : s.freeTo x = .ok s') : s'.Inv := by
  obtain ⟨s1, e1, i1, _⟩ := Inflights.freeTo_refines s h x
  rw [e1] at e; cases e; exact i1

theorem freeFirstOne_inv {s s' : Inflights} (h : s.Inv) (e : s.freeFirstOne = .ok s') : s'.Inv := by
  obtain ⟨s1, e1, i1, _⟩ := Inflights.freeFirstOne_refines s h
  rw [e1] at e; cases e; exact i1

theorem setCap_inv {s s' : Inflights} {n : Nat} (h : s.Inv) (e : s.setCap n = .ok s') : s'.Inv := by
  obtain ⟨s1, e1, i1, _⟩ := Inflights.setCap_refines s h n
  rw [e1] at e; cases e; exact i1

theorem reset_inv {s : Inflights} (h : s.Inv) : s.reset.Inv := (Inflights.reset_refines s h).1

theorem maybeFreeBuffer_inv {s : Inflights} (h : s.Inv) : s.maybeFreeBuffer.Inv :=
  (Inflights.maybeFreeBuffer_refines s h).1

/-! ### `Progress` -/

/-- the in-flight window of the progress is well-formed (`Inflights.Inv`: a ring buffer that
represents a FIFO of at most `cap` indexes — in particular `count ≤ cap` —, with a deferred capacity
reduction only while non-empty) -/
def PI (p : Progress) : Prop := p.ins.Inv

theorem PI.count_le {p : Progress} (h : PI p) : p.ins.count ≤ p.ins.cap := Inflights.Inv.count_le h

theorem PI.new (n c : Nat) : PI (Progress.new n c) := Inflights.inv_new c

theorem PI.resetState {p : Progress} (h : PI p) (st : ProgressState) : PI (p.resetState st) :=
  reset_inv h

theorem PI.reset {p : Progress} (h : PI p) (n : Nat) : PI (p.reset n) := reset_inv h

theorem PI.becomeProbe {p : Progress} (h : PI p) : PI p.becomeProbe := by
  unfold Progress.becomeProbe
  split <;> exact reset_inv h

theorem PI.becomeReplicate {p : Progress} (h : PI p) : PI p.becomeReplicate := reset_inv h

theorem PI.becomeSnapshot {p : Progress} (h : PI p) (i : Nat) : PI (p.becomeSnapshot i) :=
  reset_inv h

theorem PI.updateCommitted {p : Progress} (h : PI p) (c : Nat) : PI (p.updateCommitted c) := by
  unfold Progress.updateCommitted
  split <;> exact h

theorem PI.maybeUpdate {p : Progress} (h : PI p) (n : Nat) :
    Res.Post (fun x => PI x.1) (p.maybeUpdate n) := by
  unfold Progress.maybeUpdate
  simp only []
  split
  · trivial
  · show PI _
    split <;> split <;> exact h

theorem PI.maybeDecrTo {p : Progress} (h : PI p) (a b c : Nat) :
    Res.Post (fun x => PI x.1) (p.maybeDecrTo a b c) := by
  unfold Progress.maybeDecrTo
  repeat' split
  all_goals first | trivial | exact h

theorem PI.updateState {p : Progress} (h : PI p) (last : Nat) :
    Res.Post PI (p.updateState last) := by
  unfold Progress.updateState
  split
  · split
    · trivial
    · split
      · rename_i ins heq
        exact add_inv (s := (p.optimisticUpdate last).ins) h heq
      · trivial
  · exact h
  · trivial

/-! ### `ProgressTracker` -/

/-- every progress of the tracker has a well-formed in-flight window -/
def TOk (t : ProgressTracker) : Prop := ∀ p ∈ t.progress, PI p.2

theorem TOk.get {t : ProgressTracker} (h : TOk t) {id : Nat} {pr : Progress}
    (hg : t.get id = some pr) : PI pr := h (id, pr) (CP.mem_of_lookup hg)

theorem TOk.set {t : ProgressTracker} (h : TOk t) (id : Nat) {pr : Progress} (hp : PI pr) :
    TOk (t.set id pr) := by
  intro p hp'
  simp only [ProgressTracker.set, NatMap.modify, List.mem_map] at hp'
  obtain ⟨q, hq, rfl⟩ := hp'
  split
  · exact hp
  · exact h q hq

theorem TOk.modify {t : ProgressTracker} (h : TOk t) (id : Nat) (f : Progress → Progress)
    (hf : ∀ pr, PI pr → PI (f pr)) : TOk { t with progress := NatMap.modify id f t.progress } := by
  intro p hp'
  simp only [NatMap.modify, List.mem_map] at hp'
  obtain ⟨q, hq, rfl⟩ := hp'
  split
  · exact hf _ (h q hq)
  · exact h q hq

theorem TOk.map {t : ProgressTracker} (h : TOk t) (f : Nat → Progress → Progress)
    (hf : ∀ id pr, PI pr → PI (f id pr)) :
    TOk { t with progress := t.progress.map (fun p => (p.1, f p.1 p.2)) } := by
  intro p hp'
  simp only [List.mem_map] at hp'
  obtain ⟨q, hq, rfl⟩ := hp'
  exact hf _ _ (h q hq)

theorem TOk.new (n : Nat) : TOk (ProgressTracker.new n) := by
  intro p hp; cases hp

theorem TOk.clear (t : ProgressTracker) : TOk t.clear := by
  intro p hp; cases hp

theorem TOk.recordVote {t : ProgressTracker} (h : TOk t) (id : Nat) (v : Bool) :
    TOk (t.recordVote id v) := by
  unfold ProgressTracker.recordVote
  split <;> exact h

theorem TOk.quorumRecentlyActive {t : ProgressTracker} (h : TOk t) (id : Nat) :
    TOk (t.quorumRecentlyActive id).1 := by
  unfold ProgressTracker.quorumRecentlyActive
  simp only []
  intro p hp'
  simp only [List.mem_map] at hp'
  obtain ⟨q, hq, rfl⟩ := hp'
  split <;> exact h q hq

theorem TOk.applyConf {t : ProgressTracker} (h : TOk t) (conf : Configuration)
    (changes : MapChange) (li : Nat) : TOk (t.applyConf conf changes li) := by
  unfold ProgressTracker.applyConf
  simp only []
  have key : ∀ (l : MapChange) (m : List (Nat × Progress)), (∀ p ∈ m, PI p.2) →
      ∀ p ∈ l.foldl (fun m c => match c.2 with
        | .add => NatMap.insert c.1 { Progress.new li t.maxInflight with recentActive := true } m
        | .remove => NatMap.erase c.1 m) m, PI p.2 := by
    intro l
    induction l with
    | nil => intro m hm; exact hm
    | cons c rest ih =>
      intro m hm
      simp only [List.foldl_cons]
      apply ih
      intro p hp
      split at hp
      · rcases CP.mem_insert hp with d | d
        · rw [d]; exact PI.new li t.maxInflight
        · exact hm p d
      · exact hm p (List.mem_filter.1 hp).1
  exact key changes t.progress h

theorem TOk.restoreLoop (li : Nat) (l : List ConfChangeSingle) : ∀ {t t' : ProgressTracker},
    TOk t → t.restoreLoop li l = .ok t' → TOk t' := by
  induction l with
  | nil => intro t t' h e; unfold ProgressTracker.restoreLoop at e; cases e; exact h
  | cons c rest ih =>
    intro t t' h e
    unfold ProgressTracker.restoreLoop at e
    split at e
    · cases e
    · exact ih (h.applyConf _ _ _) e

theorem TOk.restore {t t' : ProgressTracker} (h : TOk t) {li : Nat} {cs : ConfState}
    (e : t.restore li cs = .ok t') : TOk t' := by
  unfold ProgressTracker.restore at e
  simp only [] at e
  split at e
  · exact TOk.restoreLoop _ _ h e
  · split at e
    · cases e
    · rename_i t1 h1
      have g1 := TOk.restoreLoop _ _ h h1
      split at e
      · cases e
      · cases e; exact g1.applyConf _ _ _

end FL
end Raft
end RaftModel
