import RaftProofs.ClusterCommit2X

/-!
Cluster-level commit safety, part 2Y: the commit index of a freshly booted node (`boot_committed`): the
stored commit index, or — when the storage holds no hard state — the index before the first stored
entry.
-/
namespace RaftModel
namespace Raft
open Node

theorem commitApplyInternal_skip_committed {r r' : Raft} {applied : Nat}
    (hs : r.state ≠ .leader) (h : r.commitApplyInternal applied true = .ok r') :
    r'.raftLog.committed = r.raftLog.committed := by
  unfold Raft.commitApplyInternal at h
  simp only [Bool.not_true, Bool.false_eq_true, if_false] at h
  split at h
  · cases h
  · cases h
  · rename_i log hlog
    split at hlog
    · cases hlog
    · cases hlog
      rw [if_neg (by intro hc; exact hs hc.2.2.2)] at h
      cases h; rfl

theorem raftNew_committed (c : Config) (store : MemStorage) (rnd : Option Nat) (r : Raft)
    (h : Raft.new c store rnd = .ok (.ok r)) :
    r.raftLog.committed = store.hardState.commit ∨
    (store.hardState = {} ∧ r.raftLog.committed = store.firstIndex - 1) := by
  unfold Raft.new at h
  split at h
  · cases h
  · dsimp only at h
    split at h
    · cases h
    · cases h
    · rename_i log hnew
      have hlc : log.committed = store.firstIndex - 1 := by
        unfold RaftLog.new at hnew
        split at hnew
        · cases hnew
        · cases hnew; rfl
      split at h
      · cases h
      · rename_i prs _
        rw [CV.postConfChange_follower_eq _ rfl] at h
        simp only [Res.bind] at h
        split at h
        · cases h
        · generalize hr1 : (if store.initialState.1 ≠ {} then
            Raft.loadState _ store.initialState.1 else Res.ok _) = r1 at h
          cases r1 with
          | ok b =>
            dsimp only [Res.bind] at h
            generalize hr2 : (if c.applied > 0 then b.commitApplyInternal c.applied true
              else Res.ok b) = r2 at h
            cases r2 with
            | ok d =>
              dsimp only [Res.bind] at h
              cases h
              have hb : (b.raftLog.committed = store.hardState.commit ∨
                  (store.hardState = {} ∧ b.raftLog.committed = store.firstIndex - 1)) ∧
                  b.state = .follower := by
                by_cases hhs : store.hardState ≠ {}
                · have hhs' : store.initialState.1 ≠ {} := hhs
                  rw [if_pos hhs'] at hr1
                  change Raft.loadState _ store.hardState = _ at hr1
                  unfold Raft.loadState at hr1
                  split at hr1
                  · cases hr1
                  · cases hr1
                    exact ⟨.inl rfl, rfl⟩
                · have hhs' : ¬ store.initialState.1 ≠ {} := hhs
                  rw [if_neg hhs'] at hr1
                  cases hr1
                  refine ⟨.inr ⟨?_, hlc⟩, rfl⟩
                  exact Classical.byContradiction hhs
              obtain ⟨hb1, hb2⟩ := hb
              have hd : d.raftLog.committed = b.raftLog.committed := by
                by_cases hca : c.applied > 0
                · rw [if_pos hca] at hr2
                  exact commitApplyInternal_skip_committed (by rw [hb2]; intro hc; cases hc) hr2
                · rw [if_neg hca] at hr2
                  cases hr2; rfl
              rw [becomeFollower_committed, hd]
              exact hb1
            | err e => cases h
            | panic s => cases h
          | err e => cases h
          | panic s => cases h

theorem boot_committed (c : Config) (store : MemStorage) (rnd : Option Nat) (st : NState)
    (h : Node.boot c store rnd = .ok (.ok st)) :
    st.raft.raftLog.committed = store.hardState.commit ∨
    (store.hardState = {} ∧ st.raft.raftLog.committed = store.firstIndex - 1) := by
  unfold Node.boot at h
  split at h
  · rename_i raft hn
    cases h
    unfold RawNode.new at hn
    split at hn
    · cases hn
    · exact raftNew_committed c store rnd raft hn
  · cases h
  · cases h
  · cases h

end Raft
end RaftModel
