import RaftProofs.ClusterCommit5cV

/-!
Cluster-level commit safety **with `batch_append`** (copy of `ClusterCommitW.lean` over `Hyp2wB`), part W: the induction for Log Matching across time (`agree_all`).
-/
namespace RaftModel
namespace ClusterB
open Node Raft Raft.CC Raft.CB Raft.Bt Cluster RaftProps.C02 RaftProps.C05

variable {cfg : JointConfig} {c0 : Nat} {h : List Sys}

/-- what the state `sN = h[N]` knows about the chains of all earlier states -/
structure Past (h : List Sys) (N : Nat) (sN : Sys) : Prop where
  agree : ∀ m sm, m ≤ N → h[m]? = some sm → ∀ l1 g1 l2 g2, At sm l1 g1 → At sN l2 g2 →
    Agree g1 g2
  lead : ∀ m sm, m ≤ N → h[m]? = some sm → ∀ loc g, At sm loc g → ∀ q e, g.entryAt q = some e →
    ∀ k st, sN.node k = some st → st.raft.state = .leader → st.raft.term = e.term →
      q ≤ st.raft.raftLog.lastIndex
  fresh : ∀ m sm, m ≤ N → h[m]? = some sm → ∀ loc g, At sm loc g → ∀ q e, g.entryAt q = some e →
    ∀ k st, Owner h k e.term → sN.node k = some st → CanLead st.raft e.term → False

theorem past_all (H : Hyp2wB cfg c0 h) : ∀ (n : Nat) (s : Sys), h[n]? = some s → Past h n s := by
  obtain ⟨s0, h0, hall⟩ := H.inv_at
  have hfloor := entry_floor H
  refine hist_induct h _ ?_ ?_
  · intro s hs
    have I := hall s (mem_of_get hs)
    refine ⟨?_, ?_, ?_⟩
    · intro m sm hm hsm l1 g1 l2 g2 h1 h2
      have : m = 0 := by omega
      subst this
      rw [hs] at hsm; cases hsm
      exact I.agree l1 g1 l2 g2 h1 h2
    · intro m sm hm hsm loc g hat q e he k st hk hl ht
      have : m = 0 := by omega
      subst this
      rw [hs] at hsm; cases hsm
      exact I.lead k st hk hl loc g hat q e he ht.symm
    · intro m sm hm hsm loc g hat q e he k st hown hk hc
      have : m = 0 := by omega
      subst this
      rw [hs] at hsm; cases hsm
      exact I.fresh k e.term st hown hk hc loc g hat q e he rfl
  · intro n a b ha hb ih
    have Ia := hall a (mem_of_get ha)
    have Ib := hall b (mem_of_get hb)
    have hstep := H.steps n a b ha hb
    obtain ⟨κ, st, st', pers, crash, T⟩ := trans_of_cstepB H.toHypB ha hb
    have hownb : ∀ i t, leads b i t → Owner h i t := fun i t hl => ⟨b, mem_of_get hb, hl⟩
    -- a node of `b` is the stepping node or an untouched one
    have node' : ∀ j stj', b.node j = some stj' →
        (j = κ ∧ st' = stj') ∨ (j ≠ κ ∧ a.node j = some stj') := by
      intro j stj' hj
      by_cases hjk : j = κ
      · subst hjk
        rw [T.hk'] at hj
        cases hj
        exact .inl ⟨rfl, rfl⟩
      · exact .inr ⟨hjk, by rw [← T.oth j hjk]; exact hj⟩
    -- the `fresh` clause first (the other two use it at `n`)
    have hfresh : ∀ m sm, m ≤ n + 1 → h[m]? = some sm → ∀ loc g, At sm loc g → ∀ q e,
        g.entryAt q = some e → ∀ k stk, Owner h k e.term → b.node k = some stk →
        CanLead stk.raft e.term → False := by
      intro m sm hm hsm loc g hat q e he k stk hown hk hc
      by_cases hmn : m = n + 1
      · subst hmn
        rw [hb] at hsm; cases hsm
        exact Ib.fresh k e.term stk hown hk hc loc g hat q e he rfl
      · have hm' : m ≤ n := by omega
        rcases node' k stk hk with ⟨rfl, rfl⟩ | ⟨_, hka⟩
        · rcases T.rt with ⟨rt, _⟩ | ⟨hf, hte, _, _⟩
          · exact ih.fresh m sm hm' hsm loc g hat q e he k st hown T.hk (hc.back rt)
          · -- restarted: its term is the stored one, which is at least the entry's term
            have hfl := (hfloor m sm hsm loc g hat q e he k hown).steps
              ((hist_all H.hist).2.2 m n sm a hm' hsm ha) st T.hk
            rcases hc with c | ⟨_, c⟩
            · omega
            · rw [hf] at c; cases c
        · exact ih.fresh m sm hm' hsm loc g hat q e he k stk hown hka hc
    have hlead : ∀ m sm, m ≤ n + 1 → h[m]? = some sm → ∀ loc g, At sm loc g → ∀ q e,
        g.entryAt q = some e → ∀ k stk, b.node k = some stk → stk.raft.state = .leader →
        stk.raft.term = e.term → q ≤ stk.raft.raftLog.lastIndex := by
      intro m sm hm hsm loc g hat q e he k stk hk hl ht
      by_cases hmn : m = n + 1
      · subst hmn
        rw [hb] at hsm; cases hsm
        exact Ib.lead k stk hk hl loc g hat q e he ht.symm
      · have hm' : m ≤ n := by omega
        rcases node' k stk hk with ⟨rfl, rfl⟩ | ⟨_, hka⟩
        · have hown : Owner h k e.term := by
            rw [← ht]; exact hownb k _ ⟨st', T.hk', hl, rfl⟩
          rcases T.rt with ⟨rt, _⟩ | ⟨hf, _⟩
          · rcases rt.lead hl with c | ⟨c1, c2 | c2⟩
            · exact (ih.fresh m sm hm' hsm loc g hat q e he k st hown T.hk (.inl (by omega))).elim
            · exact (ih.fresh m sm hm' hsm loc g hat q e he k st hown T.hk
                (.inr ⟨by omega, c2⟩)).elim
            · have := ih.lead m sm hm' hsm loc g hat q e he k st T.hk c2 (by omega)
              have := T.keep c2 hl c1.symm
              omega
          · rw [hf] at hl; cases hl
        · exact ih.lead m sm hm' hsm loc g hat q e he k stk hka hl ht
    refine ⟨?_, hlead, hfresh⟩
    intro m sm hm hsm l1 g1 l2 g2 h1 h2
    by_cases hmn : m = n + 1
    · subst hmn
      rw [hb] at hsm; cases hsm
      exact Ib.agree l1 g1 l2 g2 h1 h2
    · have hm' : m ≤ n := by omega
      intro i e1 e2 he1 he2 hterm
      rcases T.prov l2 g2 h2 i e2 he2 with ⟨loc, x, hA, hE, hP, _⟩ | ⟨_, hl, ht, hi, _, _⟩
      · obtain ⟨heq, hpp⟩ := ih.agree m sm hm' hsm l1 g1 loc x h1 hA i e1 e2 he1 hE hterm
        exact ⟨heq, fun p p' hp hp' => hpp p p' hp (hP p' hp')⟩
      · -- a fresh link: nothing of its index and term existed before
        exfalso
        have hown : Owner h κ e1.term := by
          rw [hterm, ht]; exact hownb κ _ ⟨st', T.hk', hl, rfl⟩
        rcases T.rt with ⟨rt, _⟩ | ⟨hf, _⟩
        · rcases rt.lead hl with c | ⟨c1, c2 | c2⟩
          · exact ih.fresh m sm hm' hsm l1 g1 h1 i e1 he1 κ st hown T.hk (.inl (by omega))
          · exact ih.fresh m sm hm' hsm l1 g1 h1 i e1 he1 κ st hown T.hk (.inr ⟨by omega, c2⟩)
          · have := ih.lead m sm hm' hsm l1 g1 h1 i e1 he1 κ st T.hk c2 (by omega)
            omega
        · rw [hf] at hl; cases hl

/-- **Log Matching across time**: any two chains of any two states of the history agree -/
theorem agree_all (H : Hyp2wB cfg c0 h) (n n' : Nat) (s s' : Sys) (hn : h[n]? = some s)
    (hn' : h[n']? = some s') (l1 l2 : Loc) (g1 g2 : LLog) (h1 : At s l1 g1) (h2 : At s' l2 g2) :
    Agree g1 g2 := by
  rcases Nat.le_total n n' with hle | hle
  · exact (past_all H n' s' hn').agree n s hle hn l1 g1 l2 g2 h1 h2
  · exact ((past_all H n s hn).agree n' s' hle hn' l2 g2 l1 g1 h2 h1).symm

end ClusterB
end RaftModel
