import RaftProofs.ClusterCommitR
import RaftProofs.ClusterCommit8_LogI

/-!
C01m (route (1) of `RaftProps/C01l.REPORT.md`), hand-written part A: **provenance of messages, for the
queues of non-mute nodes and the transport** — `Cluster.provenance` (`ClusterCommitR.lean`) restated so that
the queue of a node with a `MsgSnapshot` queued is skipped.  Needs `NoSnapNet` in every state (so what `send`
moves to the transport comes from a non-mute queue) and the frame property `MonoS` of every step.
-/
namespace RaftModel
namespace Cluster
namespace M
open Node Raft Raft.CC Raft.CP

theorem provenanceM (h : List Sys) (hh : History h)
    (hk : ∀ (n : Nat) (a b : Sys), h[n]? = some a → h[n + 1]? = some b → KStep a b)
    (hns : ∀ s ∈ h, ∀ x ∈ s.net, x.msgType ≠ .msgSnapshot)
    (hmono : ∀ (n : Nat) (a b : Sys), h[n]? = some a → h[n + 1]? = some b → MonoS a b)
    (K : Message → Prop)
    (Φ : Nat → Nat → Message → Prop)
    (hfresh : ∀ n a b i st st' rnd op res, h[n]? = some a → h[n + 1]? = some b →
      a.node i = some st → b.node i = some st' → Node.call st rnd op = .ok (res, st') →
      (appOp op = true ∨ ∃ m, op = .step m ∧ m ∈ a.net ∧ m.to = i) → (∀ j, op ≠ .compact j) →
      b.net = a.net → ¬ QSnap st'.raft.msgs →
      ∀ x ∈ st'.raft.msgs, K x → x ∈ st.raft.msgs ∨ Φ (n + 1) i x) :
    ∀ n s, h[n]? = some s →
      (∀ i st, s.node i = some st → ¬ QSnap st.raft.msgs → ∀ x ∈ st.raft.msgs, K x → Gen Φ n i x) ∧
      (∀ x ∈ s.net, K x → ∃ i, Gen Φ n i x) := by
  refine hist_induct h _ ?_ ?_
  · intro s h0
    have hinit : Init s := hist_init hh s h0
    refine ⟨fun i st hi _ x hx _ => ?_, fun x hx _ => ?_⟩
    · rw [init_queue hinit i st hi] at hx; cases hx
    · rw [hinit.1] at hx; cases hx
  · intro n a b ha hb ⟨ihq, ihn⟩
    have hstep := hk n a b ha hb
    have hmn := hmono n a b ha hb
    have up : ∀ {i x}, Gen Φ n i x → Gen Φ (n + 1) i x := fun g => g.mono (Nat.le_succ n)
    have back : ∀ {i : Nat} {st st' : NState} {x : Message}, a.node i = some st → b.node i = some st' →
        x ∈ st'.raft.msgs → ¬ QSnap st'.raft.msgs → ¬ QSnap st.raft.msgs := by
      intro i st st' x h1 h2 hx hnq' hq
      rcases hmn i st st' h1 h2 hq with c | c
      · exact hnq' c
      · rw [c] at hx; cases hx
    cases hstep with
    | call k st st' rnd op res h1 h2 hnc _ h3 =>
      have hop : appOp op = true ∨ ∃ m, op = .step m ∧ m ∈ a.net ∧ m.to = k := .inl h2
      refine ⟨fun i sti hi hnq x hx hk => ?_, fun x hx hk => (ihn x hx hk).imp (fun _ g => up g)⟩
      by_cases hik : i = k
      · subst hik
        rw [node_setNode_self] at hi; cases hi
        have hself := node_setNode_self a i st'
        rcases hfresh n a _ i st st' rnd op res ha hb h1 hself h3 hop hnc rfl hnq x hx hk
          with g | g
        · exact up (ihq i st h1 (back h1 hself hx hnq) x g hk)
        · exact ⟨n + 1, Nat.le_refl _, g⟩
      · rw [node_setNode_ne a k i st' hik] at hi
        exact up (ihq i sti hi hnq x hx hk)
    | deliver k st st' rnd m res h1 h2 h3 h4 =>
      refine ⟨fun i sti hi hnq x hx hk => ?_, fun x hx hk => (ihn x hx hk).imp (fun _ g => up g)⟩
      by_cases hik : i = k
      · subst hik
        rw [node_setNode_self] at hi; cases hi
        have hself := node_setNode_self a i st'
        rcases hfresh n a _ i st st' rnd (.step m) res ha hb h1 hself h4
          (.inr ⟨m, rfl, h2, h3⟩) (fun j hc => by cases hc) rfl hnq x hx hk with g | g
        · exact up (ihq i st h1 (back h1 hself hx hnq) x g hk)
        · exact ⟨n + 1, Nat.le_refl _, g⟩
      · rw [node_setNode_ne a k i st' hik] at hi
        exact up (ihq i sti hi hnq x hx hk)
    | send k st st' h1 h2 _ h3 =>
      have hq : st'.raft.msgs = [] := by
        unfold Node.call at h3
        simp only [applyOp] at h3
        cases h3; rfl
      have hnqk : ¬ QSnap st.raft.msgs := fun ⟨y, hy, hty⟩ =>
        hns _ (List.mem_iff_getElem?.2 ⟨n + 1, hb⟩) y (List.mem_append_right _ hy) hty
      refine ⟨fun i sti hi hnq x hx hk => ?_, fun x hx hk => ?_⟩
      · have hi' : (a.setNode k st').node i = some sti := hi
        by_cases hik : i = k
        · subst hik
          rw [node_setNode_self] at hi'; cases hi'
          rw [hq] at hx; cases hx
        · rw [node_setNode_ne a k i st' hik] at hi'
          exact up (ihq i sti hi' hnq x hx hk)
      · rcases List.mem_append.1 hx with g | g
        · exact (ihn x g hk).imp (fun _ g => up g)
        · exact ⟨k, up (ihq k st h1 hnqk x g hk)⟩
    | restart k st st' c rnd h1 h2 h3 =>
      refine ⟨fun i sti hi hnq x hx hk => ?_, fun x hx hk => (ihn x hx hk).imp (fun _ g => up g)⟩
      by_cases hik : i = k
      · subst hik
        rw [node_setNode_self] at hi; cases hi
        rw [(CV.boot_booted c _ rnd st' h3).msgs] at hx; cases hx
      · rw [node_setNode_ne a k i st' hik] at hi
        exact up (ihq i sti hi hnq x hx hk)

end M
end Cluster
end RaftModel
