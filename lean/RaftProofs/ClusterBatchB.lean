import RaftProofs.ClusterBatchA

/-!
Cluster-level Log Matching **with `batch_append`**, part B: the two per-call relations.

* `N a r` (*no append*): `r` is an intermediate state of a call that started in `a`; the logical log
  and the stored entries are those of `a`, and every queued `MsgAppend` was queued in `a`
  **unchanged**.  Everything that does not reach `maybe_send_append` keeps it, whatever the role.
* `L a r` (*leader mode*): the same for the log and the storage, `r` is in the leader role, and —
  provided the `MsgAppend`s queued in `a` are gap-free and tail-compatible with the log of `a`
  (`CleanQ`) — every queued `MsgAppend` is `Good`: its chain is that of a message queued in `a`
  (`Kept`: untouched, or only its commit index was refreshed by `try_batching`), or it was `Made` in
  this call: gap-free, every link a link of the log of `a` or of a message queued in `a`, and
  tail-compatible with the log.  `maybe_send_append` with batching on or off keeps it.

The sending helpers do not check the role; that a non-leader never reaches them is visible only at
their call sites, which is why the leader role is part of `L`.
-/
namespace RaftModel
namespace Raft
namespace Bt

/-- `k` is the chain of a `MsgAppend` of `ms` -/
def Kept (ms : List Message) (k : LLog) : Prop :=
  ∃ x0 ∈ ms, x0.msgType = .msgAppend ∧ msgLog x0 = k

/-- a chain anchored at a position `≠ 0` with term 0: what `prepare_send_entries` builds when the
progress points beyond the log (`term` answers 0 outside the log).  Nothing is known about such a
message; the cluster theorems assume that none is ever queued (`SaneAnchors`). -/
def Weird (k : LLog) : Prop := k.snapTerm = some 0 ∧ k.snapIdx ≠ 0

/-- the sources of the links of a `MsgAppend` made in a call: the log, the queued appends -/
def Src (ms : List Message) (g k : LLog) : Prop := k = g ∨ (Kept ms k ∧ ¬ Weird k)

structure Made (ms : List Message) (g k : LLog) : Prop where
  contig : k.Contig
  der : DerivedFrom (Src ms g) k
  tc : TailC k g

def Good (ms : List Message) (g k : LLog) : Prop := Kept ms k ∨ Made ms g k ∨ Weird k

/-- gap-free and tail-compatible with the log `g`, or anchored in the void -/
def Ok1 (g k : LLog) : Prop := Weird k ∨ (k.Contig ∧ TailC k g)

/-- the queued `MsgAppend`s are gap-free and tail-compatible with the log `g` -/
def CleanQ (ms : List Message) (g : LLog) : Prop :=
  ∀ x ∈ ms, x.msgType = .msgAppend → Ok1 g (msgLog x)

theorem Good.all {ms : List Message} {g k : LLog} (hc : CleanQ ms g) (h : Good ms g k) :
    Weird k ∨ (k.Contig ∧ TailC k g ∧ DerivedFrom (Src ms g) k) := by
  rcases h with ⟨x0, hx, hty, rfl⟩ | h | h
  · rcases hc x0 hx hty with c | c
    · exact .inl c
    · by_cases hw : Weird (msgLog x0)
      · exact .inl hw
      · exact .inr ⟨c.1, c.2, DerivedFrom.of_mem (.inr ⟨⟨x0, hx, hty, rfl⟩, hw⟩)⟩
  · exact .inr ⟨h.contig, h.tc, h.der⟩
  · exact .inl h

theorem Good.ok1 {ms : List Message} {g k : LLog} (hc : CleanQ ms g) (h : Good ms g k) : Ok1 g k := by
  rcases Good.all hc h with c | c
  · exact .inl c
  · exact .inr ⟨c.1, c.2.1⟩

theorem Kept.mono {ms ms' : List Message} {k : LLog}
    (hsub : ∀ x ∈ ms, x.msgType = .msgAppend → x ∈ ms') (h : Kept ms k) : Kept ms' k := by
  obtain ⟨x0, hx, hty, e⟩ := h
  exact ⟨x0, hsub x0 hx hty, hty, e⟩

theorem CleanQ.mono {ms ms' : List Message} {g : LLog}
    (hsub : ∀ x ∈ ms', x.msgType = .msgAppend → x ∈ ms) (h : CleanQ ms g) : CleanQ ms' g :=
  fun x hx hty => h x (hsub x hx hty) hty

theorem Ok1.log {g g' k : LLog} (h : Ok1 g k) (hl : g.lastIndex ≤ g'.lastIndex)
    (hk : PrevKeep g g') : Ok1 g' k := by
  rcases h with c | c
  · exact .inl c
  · exact .inr ⟨c.1, c.2.mono hl hk⟩

theorem CleanQ.log {ms : List Message} {g g' : LLog} (h : CleanQ ms g)
    (hl : g.lastIndex ≤ g'.lastIndex) (hk : PrevKeep g g') : CleanQ ms g' :=
  fun x hx hty => (h x hx hty).log hl hk

/-- `Good` relative to an intermediate queue all of whose appends are `Good` -/
theorem Good.rebase {ms ms' : List Message} {g k : LLog}
    (hms : ∀ x ∈ ms', x.msgType = .msgAppend → Good ms g (msgLog x))
    (h : Good ms' g k) : Good ms g k := by
  rcases h with ⟨x0, hx, hty, rfl⟩ | h | h
  · exact hms x0 hx hty
  · refine .inr (.inl ⟨h.contig, h.der.trans' ?_, h.tc⟩)
    intro y hy
    rcases hy with rfl | ⟨⟨x0, hx, hty, rfl⟩, hnw⟩
    · exact DerivedFrom.of_mem (.inl rfl)
    · rcases hms x0 hx hty with c | c | c
      · exact DerivedFrom.of_mem (.inr ⟨c, hnw⟩)
      · exact c.der
      · exact absurd c hnw
  · exact .inr (.inr h)

/-- `Good` relative to a log that extends the reference log at its end -/
theorem Good.extend {ms : List Message} {g g' k : LLog} (hs : Sub g g')
    (hl : g.lastIndex ≤ g'.lastIndex) (hk : PrevKeep g g') (h : Good ms g k) : Good ms g' k := by
  rcases h with c | h | h
  · exact .inl c
  · refine .inr (.inl ⟨h.contig, h.der.trans' ?_, h.tc.mono hl hk⟩)
    intro y hy
    rcases hy with rfl | c
    · exact DerivedFrom.of_sub hs (.inl rfl)
    · exact DerivedFrom.of_mem (.inr c)
  · exact .inr (.inr h)

/-! ### the plain relation -/

structure NP (a : Raft) (l : RaftLog) (b : Bool) (ms : List Message) : Prop where
  ls : LogSameS a.raftLog l
  ba : b = a.batchAppend
  q : ∀ x ∈ ms, x.msgType = .msgAppend → x ∈ a.msgs

/-- `NP` of the three fields of `r` it reads -/
def N0 (a r : Raft) : Prop := NP a r.raftLog r.batchAppend r.msgs

theorem N0.ls {a r : Raft} (h : N0 a r) : LogSameS a.raftLog r.raftLog := NP.ls h
theorem N0.ba {a r : Raft} (h : N0 a r) : r.batchAppend = a.batchAppend := NP.ba h
theorem N0.q {a r : Raft} (h : N0 a r) :
    ∀ x ∈ r.msgs, x.msgType = .msgAppend → x ∈ a.msgs := NP.q h
theorem N0.abs {a r : Raft} (h : N0 a r) : r.raftLog.abs = a.raftLog.abs := h.ls.same.abs
theorem N0.inv {a r : Raft} (h : N0 a r) (hi : a.raftLog.Inv) : r.raftLog.Inv := h.ls.same.inv hi

/-- the plain per-call relation, under the standing assumption that the log of the start state
satisfies the representation invariant -/
def N (a r : Raft) : Prop := a.raftLog.Inv → N0 a r

theorem N.rfl {r : Raft} : N r r := fun _ => ⟨LogSameS.rfl, Eq.refl _, fun _ hx _ => hx⟩
theorem N0.rfl {r : Raft} : N0 r r := ⟨LogSameS.rfl, Eq.refl _, fun _ hx _ => hx⟩

theorem N0.trans {a b c : Raft} (h1 : N0 a b) (h2 : N0 b c) : N0 a c :=
  ⟨h1.ls.trans h2.ls, h2.ba.trans h1.ba, fun x hx hty => h1.q x (h2.q x hx hty) hty⟩

theorem N0.then {a r r' : Raft} (h : N0 a r) (hi : a.raftLog.Inv) (h2 : N r r') : N0 a r' :=
  h.trans (h2 (h.inv hi))

theorem N0.of_fields {a r : Raft} (hl : r.raftLog = a.raftLog) (hb : r.batchAppend = a.batchAppend)
    (hm : r.msgs = a.msgs) : N0 a r :=
  ⟨by rw [hl]; exact LogSameS.rfl, hb, fun x hx _ => by rw [← hm]; exact hx⟩

/-- any structure update that keeps `raftLog`, `batchAppend` and `msgs` keeps `N` -/
theorem N.mk' {a r : Raft} {x1 x2 x3 : Nat} {x4 : List ReadState} {x6 x7 x8 : Nat}
    {x9 : StateRole} {x10 : Bool} {x11 : Nat}
    {x12 : Option Nat} {x13 : Nat} {x14 : ReadOnly} {x15 x16 : Nat} {x17 x18 x19 x21 : Bool}
    {x22 x23 x24 x25 x26 : Nat} {x27 : Int} {x28 : UncommittedState} {x29 : Nat}
    {x30 : ProgressTracker} {x32 : Option Nat} (h0 : N a r) :
    N a { term := x1, vote := x2, id := x3, readStates := x4, raftLog := r.raftLog,
          maxInflight := x6, maxMsgSize := x7, pendingRequestSnapshot := x8, state := x9,
          promotable := x10, leaderId := x11, leadTransferee := x12,
          pendingConfIndex := x13, readOnly := x14, electionElapsed := x15,
          heartbeatElapsed := x16, checkQuorum := x17, preVote := x18,
          skipBcastCommit := x19, batchAppend := r.batchAppend, disableProposalForwarding := x21,
          heartbeatTimeout := x22, electionTimeout := x23, randomizedElectionTimeout := x24,
          minElectionTimeout := x25, maxElectionTimeout := x26, priority := x27,
          uncommittedState := x28, maxCommittedSizePerReady := x29, prs := x30, msgs := r.msgs,
          nextRand := x32 } := fun hi => ⟨(h0 hi).ls, (h0 hi).ba, (h0 hi).q⟩

theorem N.log {a r : Raft} {l : RaftLog} (hl : LogSameS r.raftLog l) (h0 : N a r) :
    N a { r with raftLog := l } :=
  fun hi => ⟨(h0 hi).ls.trans hl, (h0 hi).ba, (h0 hi).q⟩

theorem N.mkSend {a r : Raft} {m : Message} {x1 x2 x3 : Nat} {x4 : List ReadState} {x6 x7 x8 : Nat}
    {x9 : StateRole} {x10 : Bool} {x11 : Nat}
    {x12 : Option Nat} {x13 : Nat} {x14 : ReadOnly} {x15 x16 : Nat} {x17 x18 x19 x21 : Bool}
    {x22 x23 x24 x25 x26 : Nat} {x27 : Int} {x28 : UncommittedState} {x29 : Nat}
    {x30 : ProgressTracker} {x32 : Option Nat} (hm : decide (m.msgType ≠ .msgAppend) = true)
    (h0 : N a r) :
    N a { term := x1, vote := x2, id := x3, readStates := x4, raftLog := r.raftLog,
          maxInflight := x6, maxMsgSize := x7, pendingRequestSnapshot := x8, state := x9,
          promotable := x10, leaderId := x11, leadTransferee := x12,
          pendingConfIndex := x13, readOnly := x14, electionElapsed := x15,
          heartbeatElapsed := x16, checkQuorum := x17, preVote := x18,
          skipBcastCommit := x19, batchAppend := r.batchAppend, disableProposalForwarding := x21,
          heartbeatTimeout := x22, electionTimeout := x23, randomizedElectionTimeout := x24,
          minElectionTimeout := x25, maxElectionTimeout := x26, priority := x27,
          uncommittedState := x28, maxCommittedSizePerReady := x29, prs := x30,
          msgs := r.msgs ++ [r.sendFill m],
          nextRand := x32 } := by
  intro hi
  have h0 := h0 hi
  refine ⟨h0.ls, h0.ba, fun x hx hty => ?_⟩
  rcases List.mem_append.1 hx with hx | hx
  · exact h0.q x hx hty
  · rw [List.mem_singleton.1 hx, sendFill_msgType] at hty
    simp only [ne_eq, decide_not, Bool.not_eq_eq_eq_not, Bool.not_true, decide_eq_false_iff_not] at hm
    exact absurd hty hm

macro "n_pre" h:ident : tactic =>
  `(tactic| (frame_dec $h:ident <;> (iterate 2 (try (apply N.mk')))))

macro "n_auto" h:ident "[" ls:Lean.Parser.Tactic.SolveByElim.arg,* "]" : tactic =>
  `(tactic| (n_pre $h:ident <;> (solve_by_elim (maxDepth := 14) [N.rfl, $ls,*, N.mk', N.mkSend])))

/-- queueing a message that is not a `MsgAppend` -/
theorem send_n {a r r' : Raft} {m : Message} (h : r.send m = .ok r')
    (hm : decide (m.msgType ≠ .msgAppend) = true) (h0 : N a r) : N a r' := by
  rw [send_eq r r' m h]
  intro hi
  have h0 := h0 hi
  refine ⟨h0.ls, h0.ba, fun x hx hty => ?_⟩
  rcases List.mem_append.1 hx with hx | hx
  · exact h0.q x hx hty
  · rw [List.mem_singleton.1 hx, sendFill_msgType] at hty
    simp only [ne_eq, decide_not, Bool.not_eq_eq_eq_not, Bool.not_true, decide_eq_false_iff_not] at hm
    exact absurd hty hm

theorem sendHeartbeat_n {a r r' : Raft} {to : Nat} {pr : Progress} {ctx : Option Bytes}
    (h : r.sendHeartbeat to pr ctx = .ok r') (h0 : N a r) : N a r' := by
  unfold Raft.sendHeartbeat at h
  exact send_n h rfl h0

theorem sendTimeoutNow_n {a r r' : Raft} {to : Nat}
    (h : r.sendTimeoutNow to = .ok r') (h0 : N a r) : N a r' := by
  unfold Raft.sendTimeoutNow at h
  exact send_n h rfl h0

theorem handleReadyReadIndex_n {a r r' : Raft} {req : Message} {i : Nat} {om : Option Message}
    (h : r.handleReadyReadIndex req i = .ok (r', om)) (h0 : N a r) :
    N a r' ∧ ∀ m', om = some m' → m'.msgType = .msgReadIndexResp := by
  unfold Raft.handleReadyReadIndex at h
  split at h
  · split at h
    · cases h
    · cases h; exact ⟨N.mk' h0, fun _ hc => by cases hc⟩
  · cases h; exact ⟨h0, fun _ hc => by cases hc; rfl⟩

theorem sendRequestSnapshot_n {a r r' : Raft} (h : r.sendRequestSnapshot = .ok r')
    (h0 : N a r) : N a r' := by
  unfold Raft.sendRequestSnapshot at h
  n_auto h [send_n]

theorem prepareSendSnapshot_n {a r r' : Raft} {m m' : Message} {pr pr' : Progress} {to : Nat}
    {b : Bool} (h : r.prepareSendSnapshot m pr to = .ok (r', m', pr', b)) (h0 : N a r) :
    N a r' := by
  unfold Raft.prepareSendSnapshot at h
  split at h
  · cases h; exact h0
  · simp only [] at h
    have hs := logS_snapshot r.raftLog pr.pendingRequestSnapshot
    split at h
    · cases h; exact N.log hs h0
    · cases h
    · cases h
    · split at h
      · cases h
      · cases h; exact N.log hs h0

theorem viaSnapshot_n {a r r' : Raft} {to : Nat} {pr pr' : Progress} {sent : Bool}
    (h : RaftProps.C13.viaSnapshot r to pr = .ok (r', pr', sent)) (h0 : N a r) : N a r' := by
  unfold RaftProps.C13.viaSnapshot at h
  split at h
  · rename_i r1 m1 pr1 heq
    obtain ⟨_, h2⟩ := prepareSendSnapshot_msgs heq
    rw [Res.bind_eq_ok_iff] at h
    obtain ⟨r2, hs, h4⟩ := h
    cases h4
    exact send_n hs (by rw [h2 rfl]; rfl) (prepareSendSnapshot_n heq h0)
  · rename_i r1 m1 pr1 heq
    cases h
    exact prepareSendSnapshot_n heq h0
  · cases h
  · cases h

theorem foldl_n {α : Type} {a r' : Raft} (step : Res Raft → α → Res Raft)
    (hstep : ∀ acc x r1, step acc x = .ok r1 → ∃ r0, acc = .ok r0 ∧ (N a r0 → N a r1)) :
    ∀ (l : List α) (acc : Res Raft), l.foldl step acc = .ok r' →
      (∀ r, acc = .ok r → N a r) → N a r' := by
  intro l
  induction l with
  | nil => intro acc h h0; exact h0 r' h
  | cons x rest ih =>
    intro acc h h0
    simp only [List.foldl_cons] at h
    refine ih (step acc x) h ?_
    intro r1 h1
    obtain ⟨r0, e0, hf⟩ := hstep acc x r1 h1
    exact hf (h0 r0 e0)

theorem forEachPeer_n {a r r' : Raft} {f : Raft → Nat → Progress → Res (Raft × Progress)}
    (hf : ∀ r id pr r' pr', f r id pr = .ok (r', pr') → N a r → N a r')
    (h : r.forEachPeer f = .ok r') (h0 : N a r) : N a r' := by
  unfold Raft.forEachPeer at h
  refine foldl_n _ ?_ _ _ h (by intro r1 e; cases e; exact h0)
  intro acc id r1 h1
  cases acc with
  | err e => cases h1
  | panic s => cases h1
  | ok r0 =>
    refine ⟨r0, rfl, fun h0 => ?_⟩
    change (if id = r0.id then Res.ok r0 else _) = _ at h1
    n_auto h1 [hf]

theorem bcastHeartbeatWithCtx_n {a r r' : Raft} {ctx : Option Bytes}
    (h : r.bcastHeartbeatWithCtx ctx = .ok r') (h0 : N a r) : N a r' := by
  unfold Raft.bcastHeartbeatWithCtx at h
  refine forEachPeer_n (fun r id pr r' pr' h h0 => ?_) h h0
  n_auto h [sendHeartbeat_n]

theorem bcastHeartbeat_n {a r r' : Raft} (h : r.bcastHeartbeat = .ok r') (h0 : N a r) :
    N a r' := by
  unfold Raft.bcastHeartbeat at h
  exact bcastHeartbeatWithCtx_n h h0

theorem maybeCommit_n {a r r' : Raft} {b : Bool} (h : r.maybeCommit = .ok (r', b))
    (h0 : N a r) : N a r' := by
  unfold Raft.maybeCommit at h
  split at h
  · cases h
  · cases h
  · split at h
    · cases h
    · cases h
    · rename_i log hm
      cases h
      exact N.mk' (r := { r with raftLog := log }) (N.log (logS_maybeCommit hm) h0)
    · cases h; exact h0

theorem respondReadStates_n {a r r' : Raft} {rss : List ReadIndexStatus}
    (h : r.respondReadStates rss = .ok r') (h0 : N a r) : N a r' := by
  unfold Raft.respondReadStates at h
  refine foldl_n _ ?_ _ _ h (by intro r1 e; cases e; exact h0)
  intro acc rs r1 h1
  cases acc with
  | err e => cases h1
  | panic s => cases h1
  | ok r0 =>
    refine ⟨r0, rfl, fun h0 => ?_⟩
    change (r0.handleReadyReadIndex rs.req rs.index).bind _ = _ at h1
    rw [Res.bind_eq_ok_iff] at h1
    obtain ⟨⟨r2, om⟩, h2, h3⟩ := h1
    obtain ⟨hk, hty⟩ := handleReadyReadIndex_n h2 h0
    dsimp only at h3
    split at h3
    · rename_i m' _
      exact send_n h3 (by rw [hty _ rfl]; rfl) hk
    · cases h3; exact hk

theorem checkQuorumActive_n {a r r' : Raft} {b : Bool} (h : r.checkQuorumActive = (r', b))
    (h0 : N a r) : N a r' := by
  unfold Raft.checkQuorumActive at h
  split at h
  cases h
  exact N.mk' h0

theorem handleSnapshotStatus_n {a r : Raft} {m : Message} (h0 : N a r) :
    N a (r.handleSnapshotStatus m) := by
  unfold Raft.handleSnapshotStatus
  split
  · exact h0
  · split
    · exact h0
    · exact N.mk' h0

theorem handleUnreachable_n {a r : Raft} {m : Message} (h0 : N a r) :
    N a (r.handleUnreachable m) := by
  unfold Raft.handleUnreachable
  split
  · exact h0
  · split
    · exact N.mk' h0
    · exact h0

theorem filterProposalEntry_n {a r r' : Raft} {i : Nat} {e e' : Entry}
    (h : r.filterProposalEntry i e = some (r', e')) (h0 : N a r) : N a r' := by
  unfold Raft.filterProposalEntry at h
  n_auto h [send_n]

theorem filterProposal_n {a : Raft} : ∀ (es : List Entry) (r r' : Raft) (i : Nat)
    (oes : Option (List Entry)), r.filterProposal i es = (r', oes) → N a r → N a r' := by
  intro es
  induction es with
  | nil => intro r r' i oes h h0; simp [Raft.filterProposal] at h; rw [← h.1]; exact h0
  | cons e es ih =>
    intro r r' i oes h h0
    unfold Raft.filterProposal at h
    split at h
    · cases h; exact h0
    · rename_i r1 e1 h1
      have h2 := filterProposalEntry_n h1 h0
      split at h
      · rename_i r2 es2 h3
        cases h; exact ih _ _ _ _ h3 h2
      · rename_i r2 h3
        cases h; exact ih _ _ _ _ h3 h2

/-! ### follower side, role changes, votes, term preamble -/

theorem handleHeartbeat_n {a r r' : Raft} {m : Message}
    (h : r.handleHeartbeat m = .ok r') (h0 : N a r) : N a r' := by
  unfold Raft.handleHeartbeat at h
  split at h
  · cases h
  · cases h
  · rename_i log hc
    have h1 : N a { r with raftLog := log } := N.log (logS_commitTo hc) h0
    n_auto h [send_n, sendRequestSnapshot_n]

theorem reset_n {a r : Raft} (t : Nat) (h0 : N a r) : N a (r.reset t) := fun hi =>
  ⟨by rw [reset_raftLog]; exact (h0 hi).ls, by rw [reset_batchAppend]; exact (h0 hi).ba,
   by rw [reset_msgs]; exact (h0 hi).q⟩

theorem reset_n0 {a r : Raft} (t : Nat) (h0 : N0 a r) : N0 a (r.reset t) :=
  ⟨by rw [reset_raftLog]; exact h0.ls, by rw [reset_batchAppend]; exact h0.ba,
   by rw [reset_msgs]; exact h0.q⟩

theorem becomeFollower_n {a r : Raft} (t l : Nat) (h0 : N a r) : N a (r.becomeFollower t l) :=
  fun hi =>
  ⟨by rw [RaftProps.C20.becomeFollower_raftLog]; exact (h0 hi).ls.trans (logS_limit _ 0),
   by rw [becomeFollower_batchAppend]; exact (h0 hi).ba,
   by rw [becomeFollower_msgs]; exact (h0 hi).q⟩

theorem becomeCandidate_n {a r r' : Raft} (h : r.becomeCandidate = .ok r') (h0 : N a r) :
    N a r' := by
  unfold Raft.becomeCandidate at h
  split at h
  · cases h
  · split at h
    · cases h
    · cases h
      exact N.mk' (r := r.reset (r.term + 1)) (reset_n _ h0)

theorem becomePreCandidate_n {a r r' : Raft} (h : r.becomePreCandidate = .ok r') (h0 : N a r) :
    N a r' := by
  unfold Raft.becomePreCandidate at h
  split at h
  · cases h
  · cases h; exact N.mk' h0

theorem sendVoteRequests_n {a r r' : Raft} {ct : CampaignType} {vm : MsgType} {t : Nat}
    (hvm : vm ≠ .msgAppend)
    (h : r.sendVoteRequests ct vm t = .ok r') (h0 : N a r) : N a r' := by
  unfold Raft.sendVoteRequests at h
  split at h
  · cases h
  · cases h
  · split at h
    · cases h
    · cases h
    · refine foldl_n _ ?_ _ _ h (by intro r1 e; cases e; exact h0)
      intro acc id r1 h1
      cases acc with
      | err e => cases h1
      | panic s => cases h1
      | ok r0 =>
        refine ⟨r0, rfl, fun h0 => ?_⟩
        change (if id = r0.id then Res.ok r0 else _) = _ at h1
        split at h1
        · cases h1; exact h0
        · exact send_n h1 (by simp [hvm]) h0

theorem maybeCommitByVote_n {a r r' : Raft} {m : Message} (h : r.maybeCommitByVote m = .ok r')
    (h0 : N a r) : N a r' := by
  unfold Raft.maybeCommitByVote at h
  split at h
  · cases h; exact h0
  · simp only at h
    split at h
    · cases h; exact h0
    · split at h
      · cases h
      · cases h
      · cases h; exact h0
      · rename_i log hm
        have h1 : N a { r with raftLog := log } := N.log (logS_maybeCommit hm) h0
        split at h
        · cases h; exact h1
        · split at h
          · cases h
          · cases h
          · cases h; exact becomeFollower_n _ _ h1
          · cases h; exact h1

theorem stepVoteGrant_n {a r r' : Raft} {m : Message} {t : MsgType} (ht : t ≠ .msgAppend)
    (h : r.stepVoteGrant m t = .ok r') (h0 : N a r) : N a r' := by
  unfold Raft.stepVoteGrant at h
  split at h
  · rename_i r1 hs
    have h1 : N a r1 := send_n hs (by simp [ht]) h0
    split at h
    · cases h; exact N.mk' h1
    · cases h; exact h1
  · cases h
  · cases h

theorem stepVoteReject_n {a r r' : Raft} {m : Message} {t : MsgType} (ht : t ≠ .msgAppend)
    (h : r.stepVoteReject m t = .ok r') (h0 : N a r) : N a r' := by
  unfold Raft.stepVoteReject at h
  split at h
  · cases h
  · cases h
  · split at h
    · rename_i r1 hs
      have h1 : N a r1 := send_n hs (by simp [ht]) h0
      split at h
      · exact maybeCommitByVote_n h h1
      · cases h; exact h1
    · cases h
    · cases h

theorem stepVote_n {a r r' : Raft} {m : Message} (h : r.stepVote m = .ok r') (h0 : N a r) :
    N a r' := by
  unfold Raft.stepVote at h
  split at h
  · cases h
  · rename_i rt hrt
    have hne := voteResp_ne hrt
    split at h
    · exact stepVoteGrant_n hne h h0
    · exact stepVoteReject_n hne h h0
    · cases h
    · cases h

theorem stepTerm_n {a r r' : Raft} {m : Message} {b : Bool} (h : r.stepTerm m = .ok (r', b))
    (h0 : N a r) : N a r' := by
  unfold Raft.stepTerm at h
  n_auto h [send_n, becomeFollower_n]

/-! ### the leader-mode relation -/

structure LP (a : Raft) (l : RaftLog) (b : Bool) (s : StateRole) (ms : List Message) : Prop where
  ls : LogSameS a.raftLog l
  ba : b = a.batchAppend
  st : s = .leader
  q : ∀ x ∈ ms, x.msgType = .msgAppend → Good a.msgs a.raftLog.abs (msgLog x)

def L0 (a r : Raft) : Prop := LP a r.raftLog r.batchAppend r.state r.msgs

theorem L0.ls {a r : Raft} (h : L0 a r) : LogSameS a.raftLog r.raftLog := LP.ls h
theorem L0.ba {a r : Raft} (h : L0 a r) : r.batchAppend = a.batchAppend := LP.ba h
theorem L0.st {a r : Raft} (h : L0 a r) : r.state = .leader := LP.st h
theorem L0.q {a r : Raft} (h : L0 a r) :
    ∀ x ∈ r.msgs, x.msgType = .msgAppend → Good a.msgs a.raftLog.abs (msgLog x) := LP.q h
theorem L0.abs {a r : Raft} (h : L0 a r) : r.raftLog.abs = a.raftLog.abs := h.ls.same.abs
theorem L0.inv {a r : Raft} (h : L0 a r) (hi : a.raftLog.Inv) : r.raftLog.Inv := h.ls.same.inv hi

/-- the leader-mode relation under its standing assumptions: the representation invariant of the log
of the start state, and its queue clean -/
def L (a r : Raft) : Prop := a.raftLog.Inv → CleanQ a.msgs a.raftLog.abs → L0 a r

theorem L0.rfl {r : Raft} (hs : r.state = .leader) : L0 r r :=
  ⟨LogSameS.rfl, Eq.refl _, hs, fun x hx hty => .inl ⟨x, hx, hty, Eq.refl _⟩⟩

theorem L.rfl {r : Raft} (hs : r.state = .leader) : L r r := fun _ _ => L0.rfl hs

theorem N0.toL {a r : Raft} (h : N0 a r) (hs : r.state = .leader) : L0 a r :=
  ⟨h.ls, h.ba, hs, fun x hx hty => .inl ⟨x, h.q x hx hty, hty, Eq.refl _⟩⟩

/-- the queue of a leader-mode state is clean again -/
theorem L0.clean {a r : Raft} (h : L0 a r) (hc : CleanQ a.msgs a.raftLog.abs) :
    CleanQ r.msgs r.raftLog.abs := by
  intro x hx hty
  rw [h.abs]
  exact Good.ok1 hc (h.q x hx hty)

theorem L0.trans {a b c : Raft} (h1 : L0 a b) (h2 : L0 b c) : L0 a c := by
  refine ⟨h1.ls.trans h2.ls, h2.ba.trans h1.ba, h2.st, fun x hx hty => ?_⟩
  have := h2.q x hx hty
  rw [h1.abs] at this
  exact Good.rebase h1.q this

/-- `L` from `r` on, composed with `L0` up to `r` -/
theorem L0.then {a r r' : Raft} (h : L0 a r) (hi : a.raftLog.Inv)
    (hc : CleanQ a.msgs a.raftLog.abs) (h2 : L r r') : L0 a r' :=
  h.trans (h2 (h.inv hi) (h.clean hc))

/-- a plain step that keeps the role, in leader mode -/
theorem L.of_n {a r r' : Raft} (hn : N r r') (hst : r'.state = r.state) (h0 : L a r) : L a r' := by
  intro hi hc
  have h0 := h0 hi hc
  have hn := hn (h0.inv hi)
  exact ⟨h0.ls.trans hn.ls, hn.ba.trans h0.ba, hst.trans h0.st,
    fun x hx hty => h0.q x (hn.q x hx hty) hty⟩

/-- any structure update that keeps `raftLog`, `batchAppend`, `state` and `msgs` keeps `L` -/
theorem L.mk' {a r : Raft} {x1 x2 x3 : Nat} {x4 : List ReadState} {x6 x7 x8 : Nat}
    {x10 : Bool} {x11 : Nat}
    {x12 : Option Nat} {x13 : Nat} {x14 : ReadOnly} {x15 x16 : Nat} {x17 x18 x19 x21 : Bool}
    {x22 x23 x24 x25 x26 : Nat} {x27 : Int} {x28 : UncommittedState} {x29 : Nat}
    {x30 : ProgressTracker} {x32 : Option Nat} (h0 : L a r) :
    L a { term := x1, vote := x2, id := x3, readStates := x4, raftLog := r.raftLog,
          maxInflight := x6, maxMsgSize := x7, pendingRequestSnapshot := x8, state := r.state,
          promotable := x10, leaderId := x11, leadTransferee := x12,
          pendingConfIndex := x13, readOnly := x14, electionElapsed := x15,
          heartbeatElapsed := x16, checkQuorum := x17, preVote := x18,
          skipBcastCommit := x19, batchAppend := r.batchAppend, disableProposalForwarding := x21,
          heartbeatTimeout := x22, electionTimeout := x23, randomizedElectionTimeout := x24,
          minElectionTimeout := x25, maxElectionTimeout := x26, priority := x27,
          uncommittedState := x28, maxCommittedSizePerReady := x29, prs := x30, msgs := r.msgs,
          nextRand := x32 } :=
  fun hi hc => ⟨(h0 hi hc).ls, (h0 hi hc).ba, (h0 hi hc).st, (h0 hi hc).q⟩

theorem L.log {a r : Raft} {l : RaftLog} (hl : LogSameS r.raftLog l) (h0 : L a r) :
    L a { r with raftLog := l } :=
  fun hi hc => ⟨(h0 hi hc).ls.trans hl, (h0 hi hc).ba, (h0 hi hc).st, (h0 hi hc).q⟩

theorem L.mkSend {a r : Raft} {m : Message} {x1 x2 x3 : Nat} {x4 : List ReadState} {x6 x7 x8 : Nat}
    {x10 : Bool} {x11 : Nat}
    {x12 : Option Nat} {x13 : Nat} {x14 : ReadOnly} {x15 x16 : Nat} {x17 x18 x19 x21 : Bool}
    {x22 x23 x24 x25 x26 : Nat} {x27 : Int} {x28 : UncommittedState} {x29 : Nat}
    {x30 : ProgressTracker} {x32 : Option Nat} (hm : decide (m.msgType ≠ .msgAppend) = true)
    (h0 : L a r) :
    L a { term := x1, vote := x2, id := x3, readStates := x4, raftLog := r.raftLog,
          maxInflight := x6, maxMsgSize := x7, pendingRequestSnapshot := x8, state := r.state,
          promotable := x10, leaderId := x11, leadTransferee := x12,
          pendingConfIndex := x13, readOnly := x14, electionElapsed := x15,
          heartbeatElapsed := x16, checkQuorum := x17, preVote := x18,
          skipBcastCommit := x19, batchAppend := r.batchAppend, disableProposalForwarding := x21,
          heartbeatTimeout := x22, electionTimeout := x23, randomizedElectionTimeout := x24,
          minElectionTimeout := x25, maxElectionTimeout := x26, priority := x27,
          uncommittedState := x28, maxCommittedSizePerReady := x29, prs := x30,
          msgs := r.msgs ++ [r.sendFill m],
          nextRand := x32 } := by
  intro hi hc
  have h0 := h0 hi hc
  refine ⟨h0.ls, h0.ba, h0.st, fun x hx hty => ?_⟩
  rcases List.mem_append.1 hx with hx | hx
  · exact h0.q x hx hty
  · rw [List.mem_singleton.1 hx, sendFill_msgType] at hty
    simp only [ne_eq, decide_not, Bool.not_eq_eq_eq_not, Bool.not_true, decide_eq_false_iff_not] at hm
    exact absurd hty hm

macro "l_pre" h:ident : tactic =>
  `(tactic| (frame_dec $h:ident <;> (iterate 2 (try (apply L.mk')))))

macro "l_auto" h:ident "[" ls:Lean.Parser.Tactic.SolveByElim.arg,* "]" : tactic =>
  `(tactic| (l_pre $h:ident <;> (solve_by_elim (maxDepth := 14) [$ls,*, L.mk', L.mkSend])))

theorem send_l {a r r' : Raft} {m : Message} (h : r.send m = .ok r')
    (hm : decide (m.msgType ≠ .msgAppend) = true) (h0 : L a r) : L a r' :=
  L.of_n (send_n h hm N.rfl) (send_frame h Frame.rfl).state h0

theorem sendTimeoutNow_l {a r r' : Raft} {to : Nat}
    (h : r.sendTimeoutNow to = .ok r') (h0 : L a r) : L a r' := by
  unfold Raft.sendTimeoutNow at h
  exact send_l h rfl h0

theorem maybeCommit_l {a r r' : Raft} {b : Bool} (h : r.maybeCommit = .ok (r', b))
    (h0 : L a r) : L a r' :=
  L.of_n (maybeCommit_n h N.rfl) (maybeCommit_frame h Frame.rfl).state h0

theorem respondReadStates_l {a r r' : Raft} {rss : List ReadIndexStatus}
    (h : r.respondReadStates rss = .ok r') (h0 : L a r) : L a r' :=
  L.of_n (respondReadStates_n h N.rfl) (respondReadStates_frame h Frame.rfl).state h0

theorem viaSnapshot_l {a r r' : Raft} {to : Nat} {pr pr' : Progress} {sent : Bool}
    (h : RaftProps.C13.viaSnapshot r to pr = .ok (r', pr', sent)) (hst : r'.state = r.state)
    (h0 : L a r) : L a r' :=
  L.of_n (viaSnapshot_n h N.rfl) hst h0

/-! ### `maybe_send_append`, batching on or off -/

theorem msgLog_batched (c : Nat) (msg : Message) (es : List Entry) :
    msgLog (RaftProps.C13.batchedMsg c msg es) =
      { msgLog msg with ents := (msgLog msg).ents ++ es } := rfl

/-- `entries idx` answers with entries only from the first index on -/
theorem entries_first_le {l : RaftLog} (h : l.Inv) {idx : Nat} {mx : Option Nat} {ca : Bool}
    {es : List Entry} (he : l.entries idx mx ca = .ok es) : l.abs.snapIdx < idx := by
  have h0 := Inv_untrigger h
  have he0 := entries_untrigger he
  have hc := RaftProps.C14.C14_entries_cases _ h0 idx mx ca (by simp)
  rcases Nat.lt_or_ge idx ({ l with store := { l.store with triggerLogUnavailable := false } } :
      RaftLog).firstIndex with h2 | h2
  · rw [hc.2.1 h2] at he0; cases he0
  · have hf : ({ l with store := { l.store with triggerLogUnavailable := false } } :
        RaftLog).firstIndex = l.firstIndex := rfl
    rw [hf, h.firstIndex_abs] at h2
    simp only [LLog.firstIndex] at h2
    omega

/-- **`maybe_send_append`**: what it queues is a `MsgSnapshot`, or a fresh `MsgAppend` that is a slice of
the sender's logical log, or — batching — it glues the slice onto the first queued `MsgAppend` for the
peer, which (the queue being clean) yields a chain made of links of that message and of the log -/
theorem maybeSendAppend_l {a r r' : Raft} {to : Nat} {pr pr' : Progress} {ae b : Bool}
    (h : r.maybeSendAppend to pr ae = .ok (r', pr', b)) (h0 : L a r) : L a r' := by
  have hfr := (maybeSendAppend_frame h Frame.rfl).state
  rcases RaftProps.C13.C13_send_classification r r' to pr pr' ae b h with
    ⟨_, he, _⟩ | ⟨_, _, hn, t, es, ht, hes, _, _, _, hcase⟩ | ⟨_, _, he, _⟩ | ⟨_, _, hv⟩
  · rw [he]; exact h0
  · intro hinv hcl
    have h0 := h0 hinv hcl
    have hri := h0.inv hinv
    obtain ⟨hc, hown⟩ := entries_own hri hes
    have hfirst := entries_first_le hri hes
    rw [hri.term_abs, h0.abs] at ht
    rw [h0.abs] at hown hfirst
    rcases hcase with ⟨_, htb⟩ | ⟨_, he⟩
    · -- batched
      obtain ⟨hr', hb1, _⟩ := RaftProps.C13.C13_batching r r' to pr pr' es true htb
      obtain ⟨pre, msg, post, hms, _, hto, hcont, hms', _⟩ := hb1 rfl
      have hl' : r'.raftLog = r.raftLog := by rw [hr']
      have hb' : r'.batchAppend = r.batchAppend := by rw [hr']
      refine ⟨by rw [hl']; exact h0.ls, by rw [hb']; exact h0.ba, by rw [hfr]; exact h0.st,
        fun x hx hty => ?_⟩
      rw [hms'] at hx
      have hold : ∀ y, y ∈ pre ∨ y ∈ post → y ∈ r.msgs := by
        intro y hy
        rw [hms]
        rcases hy with hy | hy
        · exact List.mem_append_left _ hy
        · exact List.mem_append_right _ (List.mem_cons_of_mem _ hy)
      have hmsg : msg ∈ r.msgs := by
        rw [hms]; exact List.mem_append_right _ List.mem_cons_self
      rcases List.mem_append.1 hx with hx | hx
      · exact h0.q x (hold x (.inl hx)) hty
      · rcases List.mem_cons.1 hx with hx | hx
        · -- the glued message
          subst hx
          rw [msgLog_batched]
          cases es with
          | nil =>
            simp only [List.append_nil]
            exact h0.q msg hmsg hto.1
          | cons e0 es =>
            rcases Good.all hcl (h0.q msg hmsg hto.1) with hw | hg
            · exact .inr (.inr hw)
            · -- the slice starts right after the end of the queued message
              have hstart : pr.nextIdx = (msgLog msg).lastIndex + 1 := by
                have h1 : e0.index = pr.nextIdx := by have := hc 0 e0 rfl; omega
                rcases (RaftProps.C13.C13_isContinuousEnts_char msg (e0 :: es)).1 hcont with
                  hnil | ⟨f, hf, hidx⟩
                · cases hnil
                · simp only [List.head?_cons, Option.some.injEq] at hf
                  subst hf
                  have hmc : ContigFrom (msg.index + 1) msg.entries := hg.1
                  show pr.nextIdx = msg.index + msg.entries.length + 1
                  cases hl : msg.entries.getLast? with
                  | none =>
                    have : msg.entries = [] := by simpa using hl
                    rw [hl] at hidx; simp only at hidx
                    rw [this]; simp; omega
                  | some last =>
                    rw [hl] at hidx; simp only at hidx
                    have := hmc.getLast hl
                    omega
              rw [hstart] at hc ht
              obtain ⟨g1, g2, g3⟩ := glue (msgLog msg) a.raftLog.abs e0 es t hg.1 hg.2.1 hc hown ht
              refine .inr (.inl ⟨g1, g2.trans' ?_, g3⟩)
              intro y hy
              rcases hy with rfl | rfl
              · exact hg.2.2
              · exact DerivedFrom.of_mem (.inl rfl)
        · exact h0.q x (hold x (.inr hx)) hty
    · -- a fresh message
      rw [he]
      refine ⟨h0.ls, h0.ba, h0.st, fun x hx hty => ?_⟩
      rcases List.mem_append.1 hx with hx | hx
      · exact h0.q x hx hty
      · rw [List.mem_singleton.1 hx]
        by_cases hweird : t = 0 ∧ pr.nextIdx - 1 ≠ 0
        · exact .inr (.inr ⟨by show some t = some 0; rw [hweird.1], hweird.2⟩)
        · refine .inr (.inl ?_)
          have hsub := sub_of_slice a.raftLog.abs pr.nextIdx t es (by omega) hc hown ht
          refine ⟨?_, DerivedFrom.of_sub hsub (.inl rfl), ?_⟩
          · show ContigFrom (pr.nextIdx - 1 + 1) es
            rw [show pr.nextIdx - 1 + 1 = pr.nextIdx by omega]; exact hc
          · -- the anchor lies within the log
            have hbound : pr.nextIdx ≤ a.raftLog.abs.lastIndex + 1 := by
              by_cases hout : a.raftLog.abs.lastIndex < pr.nextIdx - 1
              · have h0t : t = 0 := by
                  unfold LLog.term at ht
                  rw [if_pos (.inr hout)] at ht
                  cases ht; rfl
                exfalso
                apply hweird
                refine ⟨h0t, ?_⟩
                have : a.raftLog.abs.snapIdx ≤ a.raftLog.abs.lastIndex := by
                  unfold LLog.lastIndex; omega
                omega
              · omega
            exact tc_of_slice a.raftLog.abs pr.nextIdx t es (by omega) hc hown ht hfirst hbound
  · rw [he]; exact h0
  · exact viaSnapshot_l hv hfr h0

theorem sendAppendPr_l {a r r' : Raft} {to : Nat} {pr pr' : Progress}
    (h : r.sendAppendPr to pr = .ok (r', pr')) (h0 : L a r) : L a r' := by
  unfold Raft.sendAppendPr at h
  l_auto h [maybeSendAppend_l]

theorem sendAppendAggressivelyPr_l {a r' : Raft} {to : Nat} {pr' : Progress}:
    ∀ (fuel : Nat) (r : Raft) (pr : Progress),
      sendAppendAggressivelyPr fuel r to pr = .ok (r', pr') → L a r → L a r' := by
  intro fuel
  induction fuel with
  | zero => intro r pr h; simp [sendAppendAggressivelyPr] at h
  | succ n ih =>
    intro r pr h h0
    unfold sendAppendAggressivelyPr at h
    split at h
    · rename_i r1 pr1 hm
      exact ih r1 pr1 h (maybeSendAppend_l hm h0)
    · rename_i r1 pr1 hm
      cases h; exact maybeSendAppend_l hm h0
    · cases h
    · cases h

theorem sendAppend_l {a r r' : Raft} {to : Nat}
    (h : r.sendAppend to = .ok r') (h0 : L a r) : L a r' := by
  unfold Raft.sendAppend at h
  l_auto h [sendAppendPr_l]

theorem sendAppendAggressively_l {a r r' : Raft} {to : Nat}
    (h : r.sendAppendAggressively to = .ok r') (h0 : L a r) : L a r' := by
  unfold Raft.sendAppendAggressively at h
  l_auto h [sendAppendAggressivelyPr_l]

theorem foldl_l {α : Type} {a r' : Raft} (step : Res Raft → α → Res Raft)
    (hstep : ∀ acc x r1, step acc x = .ok r1 → ∃ r0, acc = .ok r0 ∧ (L a r0 → L a r1)) :
    ∀ (l : List α) (acc : Res Raft), l.foldl step acc = .ok r' →
      (∀ r, acc = .ok r → L a r) → L a r' := by
  intro l
  induction l with
  | nil => intro acc h h0; exact h0 r' h
  | cons x rest ih =>
    intro acc h h0
    simp only [List.foldl_cons] at h
    refine ih (step acc x) h ?_
    intro r1 h1
    obtain ⟨r0, e0, hf⟩ := hstep acc x r1 h1
    exact hf (h0 r0 e0)

theorem forEachPeer_l {a r r' : Raft} {f : Raft → Nat → Progress → Res (Raft × Progress)}
    (hf : ∀ r id pr r' pr', f r id pr = .ok (r', pr') → L a r → L a r')
    (h : r.forEachPeer f = .ok r') (h0 : L a r) : L a r' := by
  unfold Raft.forEachPeer at h
  refine foldl_l _ ?_ _ _ h (by intro r1 e; cases e; exact h0)
  intro acc id r1 h1
  cases acc with
  | err e => cases h1
  | panic s => cases h1
  | ok r0 =>
    refine ⟨r0, rfl, fun h0 => ?_⟩
    change (if id = r0.id then Res.ok r0 else _) = _ at h1
    l_auto h1 [hf]

theorem bcastAppend_l {a r r' : Raft}
    (h : r.bcastAppend = .ok r') (h0 : L a r) : L a r' := by
  unfold Raft.bcastAppend at h
  exact forEachPeer_l (fun r id pr r' pr' h => sendAppendPr_l h) h h0

/-! ### leader side -/

theorem handleAppendResponseAccepted_l {a r r' : Raft} {m : Message} {pr : Progress} {op : Bool}
    (h : r.handleAppendResponseAccepted m pr op = .ok r') (h0 : L a r) : L a r' := by
  unfold Raft.handleAppendResponseAccepted at h
  l_auto h [maybeCommit_l, bcastAppend_l, sendAppend_l,
    sendAppendAggressively_l, sendTimeoutNow_l]

theorem handleAppendResponse_l {a r r' : Raft} {m : Message}
    (h : r.handleAppendResponse m = .ok r') (h0 : L a r) : L a r' := by
  unfold Raft.handleAppendResponse at h
  l_auto h [handleAppendResponseAccepted_l, sendAppend_l]

theorem handleHeartbeatResponse_l {a r r' : Raft} {m : Message}
    (h : r.handleHeartbeatResponse m = .ok r') (h0 : L a r) : L a r' := by
  unfold Raft.handleHeartbeatResponse at h
  l_auto h [sendAppendPr_l, respondReadStates_l]

theorem handleTransferLeader_l {a r r' : Raft} {m : Message}
    (h : r.handleTransferLeader m = .ok r') (h0 : L a r) : L a r' := by
  unfold Raft.handleTransferLeader at h
  repeat' (first | split at h | (simp only at h; split at h))
  all_goals l_auto h [sendTimeoutNow_l, sendAppendPr_l]

end Bt
end Raft
end RaftModel
