import RaftProofs.ClusterCommitF

/-!
Cluster-level commit safety, helper lemmas part G: `handle_append_response` — the only place where a
peer's `matched` grows — and `step_leader`.
-/
namespace RaftModel
namespace Raft
namespace CC

theorem maybeDecrTo_matched {p p' : Progress} {rej hint rs : Nat} {b : Bool}
    (h : p.maybeDecrTo rej hint rs = .ok (p', b)) : p'.matched = p.matched := by
  unfold Progress.maybeDecrTo at h
  split at h
  · split at h
    · cases h; rfl
    · split at h <;> (cases h; rfl)
  · split at h
    · cases h; rfl
    · split at h
      · split at h
        · cases h
        · cases h; rfl
      · split at h <;> (cases h; rfl)

theorem maybeUpdate_matched {p p' : Progress} {n : Nat} {b : Bool}
    (h : p.maybeUpdate n = .ok (p', b)) :
    (b = false → p'.matched = p.matched) ∧ (b = true → p'.matched = n ∧ p.matched < n) := by
  unfold Progress.maybeUpdate at h
  simp only [] at h
  split at h
  · cases h
  · by_cases hlt : p.matched < n
    · simp only [hlt, decide_true, if_true] at h
      injection h with h
      injection h with h1 h2
      subst h1
      refine ⟨(fun hb => by rw [hb] at h2; cases h2), fun _ => ⟨?_, hlt⟩⟩
      split <;> rfl
    · simp only [hlt, decide_false] at h
      injection h with h
      injection h with h1 h2
      subst h1
      refine ⟨fun _ => ?_, (fun hb => by rw [hb] at h2; cases h2)⟩
      simp only [Bool.false_eq_true, if_false]
      split <;> rfl

/-- writing back a progress entry whose `matched` grew to a value backed by `A` -/
theorem G.setMatched {A : Nat → Nat → Nat → Prop} {a r : Raft} {m : Message} {id : Nat}
    {pr : Progress} (h0 : G A a m r)
    (hb : pr.matched = 0 ∨ (id = r.id ∧ pr.matched ≤ r.raftLog.persisted) ∨ A id r.term pr.matched)
    (hge : ∀ old, r.prs.get id = some old → old.matched ≤ pr.matched) :
    G A a m { r with prs := r.prs.set id pr } := by
  have hm : ∀ j x, mfun (r.prs.set id pr) j = some x →
      (j = id ∧ x = pr.matched) ∨ (j ≠ id ∧ mfun r.prs j = some x) := by
    intro j x hx
    by_cases hj : j = id
    · subst hj
      left
      unfold mfun at hx
      cases hg : r.prs.get j with
      | none =>
        have : (r.prs.set j pr).get j = none := by
          simp only [ProgressTracker.get, ProgressTracker.set] at *
          rw [c04_lookup_modify_self, hg]; rfl
        rw [this] at hx; cases hx
      | some old =>
        rw [c04_get_set_self r.prs j pr old hg] at hx
        injection hx with hx
        exact ⟨rfl, hx.symm⟩
    · right
      unfold mfun at hx ⊢
      rw [c04_get_set_ne r.prs id j pr hj] at hx
      exact ⟨hj, hx⟩
  refine ⟨h0.id, ⟨fun hs j x hx => ?_⟩, fun hs => ?_, ?_, ?_, h0.qvk, ?_⟩
  · rcases hm j x hx with ⟨g1, g2⟩ | ⟨_, g⟩
    · rw [g1, g2]; exact hb
    · exact h0.mok.h hs j x g
  · rcases h0.lc hs with g | ⟨⟨Q, hQ, hQm⟩, g2⟩
    · exact .inl g
    · right
      refine ⟨⟨Q, hQ, fun v hv => ?_⟩, g2⟩
      obtain ⟨x, hx, hle⟩ := hQm v hv
      by_cases hvi : v = id
      · subst hvi
        obtain ⟨old, ho, hom⟩ := get_of_mfun hx
        refine ⟨pr.matched, ?_, ?_⟩
        · show mfun (r.prs.set v pr) v = some pr.matched
          unfold mfun; rw [c04_get_set_self r.prs v pr old ho]; rfl
        · have := hge old ho
          show r.raftLog.committed ≤ pr.matched
          omega
      · refine ⟨x, ?_, hle⟩
        show mfun (r.prs.set id pr) v = some x
        unfold mfun at hx ⊢
        rw [c04_get_set_ne r.prs id v pr hvi]; exact hx
  · intro x hx hty
    exact (h0.qlk x hx hty).imp (fun g => g) (fun g => ⟨g.lead, g.term, g.frm, g.app, g.hb⟩)
  · intro x hx hty
    exact (h0.qak x hx hty).imp (fun g => g) (fun g => ⟨g.term, g.frm, g.src⟩)
  · intro x hx hty
    exact (h0.qrq x hx hty).imp (fun g => g) (fun g => ⟨g.term, g.last, g.lt⟩)

theorem handleAppendResponseAccepted_g {A : Nat → Nat → Nat → Prop} {a r r' : Raft} {m : Message}
    {pr : Progress} {op : Bool}
    (hA : ∀ j t x y, y ≤ x → A j t x → A j t y) (hnb : r.batchAppend = false)
    (hs : r.state = .leader) (hb : A m.frm r.term pr.matched)
    (hge : ∀ old, r.prs.get m.frm = some old → old.matched ≤ pr.matched)
    (h : r.handleAppendResponseAccepted m pr op = .ok r') (h0 : G A a m r) : G A a m r' := by
  unfold Raft.handleAppendResponseAccepted at h
  obtain ⟨pr1, hp1, h⟩ := Res.bind_eq_ok h
  have hm1 : pr1.matched = pr.matched := by
    split at hp1
    · cases hp1; rfl
    · cases hp1; split
      · exact becomeProbe_matched _
      · rfl
    · split at hp1
      · cases hp1; rfl
      · cases hp1
  simp only [] at h
  have h1 : G A a m ({ r with prs := r.prs.set m.frm pr1 } : Raft) :=
    h0.setMatched (by rw [hm1]; exact .inr (.inr hb)) (fun old ho => by rw [hm1]; exact hge old ho)
  obtain ⟨r2, hr2, h⟩ := Res.bind_eq_ok h
  -- the state after `maybe_commit`
  have key : ∀ (r3 : Raft) (b : Bool),
      ({ r with prs := r.prs.set m.frm pr1 } : Raft).maybeCommit = .ok (r3, b) →
      G A a m r3 ∧ r3.state = .leader ∧ r3.batchAppend = false := by
    intro r3 b hmc
    have hsp := maybeCommit_spec hmc
    refine ⟨maybeCommit_g hmc h1, ?_, ?_⟩
    · obtain ⟨mci, gc, _, hh | hh⟩ := hsp
      · rw [hh.2.2.2.2]; exact hs
      · rw [hh.2]; exact hs
    · obtain ⟨mci, gc, _, hh | hh⟩ := hsp
      · rw [hh.2.2.2.2]; exact hnb
      · rw [hh.2]; exact hnb
  have h2 : G A a m r2 ∧ r2.state = .leader ∧ r2.batchAppend = false := by
    split at hr2
    · rename_i r3 hmc
      obtain ⟨g1, g2, g3⟩ := key r3 true hmc
      split at hr2
      · have hsf := bcastAppend_sf g3 hr2 SF.rfl
        exact ⟨g1.sf hA hsf (.inl g2), hsf.state.trans g2, hsf.batch.trans g3⟩
      · cases hr2; exact ⟨g1, g2, g3⟩
    · rename_i r3 hmc
      obtain ⟨g1, g2, g3⟩ := key r3 false hmc
      split at hr2
      · have hsf := sendAppend_sf g3 hr2 SF.rfl
        exact ⟨g1.sf hA hsf (.inl g2), hsf.state.trans g2, hsf.batch.trans g3⟩
      · cases hr2; exact ⟨g1, g2, g3⟩
    · cases hr2
    · cases hr2
  obtain ⟨g1, g2, g3⟩ := h2
  obtain ⟨r4, hr4, h⟩ := Res.bind_eq_ok h
  have hsf4 := sendAppendAggressively_sf g3 hr4 SF.rfl
  have g4 := g1.sf hA hsf4 (.inl g2)
  split at h
  · split at h
    · cases h
    · split at h
      · have hsf5 := sendTimeoutNow_sf h SF.rfl
        exact g4.sf hA hsf5 (.inl (hsf4.state.trans g2))
      · cases h; exact g4
  · cases h; exact g4

theorem handleAppendResponse_g {A : Nat → Nat → Nat → Prop} {a r r' : Raft} {m : Message}
    (hA : ∀ j t x y, y ≤ x → A j t x → A j t y) (hnb : r.batchAppend = false)
    (hs : r.state = .leader)
    (hin : m.reject = false → A m.frm r.term m.index)
    (h : r.handleAppendResponse m = .ok r') (h0 : G A a m r) : G A a m r' := by
  unfold Raft.handleAppendResponse at h
  obtain ⟨npi, _, h⟩ := Res.bind_eq_ok h
  split at h
  · cases h; exact h0
  · rename_i pr hg
    simp only [] at h
    have hm0 : (({ pr with recentActive := true } : Progress).updateCommitted m.commit).matched =
        pr.matched := updateCommitted_matched _ _
    split at h
    · -- rejected: the progress is only probed back
      split at h
      · cases h
      · cases h
      · rename_i pr2 hd
        have hm2 := (maybeDecrTo_matched hd).trans hm0
        have hmq : (if pr2.state = .replicate then pr2.becomeProbe else pr2).matched = pr.matched := by
          split
          · rw [becomeProbe_matched]; exact hm2
          · exact hm2
        have hsf1 := (SF.rfl (r := r)).setPr (id := m.frm)
          (pr := if pr2.state = .replicate then pr2.becomeProbe else pr2)
          (fun old ho => by rw [hg] at ho; cases ho; exact hmq)
        have hsf2 := sendAppend_sf hnb h hsf1
        exact h0.sf hA hsf2 (.inl hs)
      · rename_i pr2 hd
        cases h
        have hm2 := (maybeDecrTo_matched hd).trans hm0
        exact h0.sf hA (SF.rfl.setPr (fun old ho => by rw [hg] at ho; cases ho; exact hm2)) (.inl hs)
    · rename_i hrej
      have hrej' : m.reject = false := by simpa using hrej
      split at h
      · cases h
      · cases h
      · rename_i pr2 hu
        cases h
        have hm2 := ((maybeUpdate_matched hu).1 rfl).trans hm0
        exact h0.sf hA (SF.rfl.setPr (fun old ho => by rw [hg] at ho; cases ho; exact hm2)) (.inl hs)
      · rename_i pr2 hu
        obtain ⟨e1, e2⟩ := (maybeUpdate_matched hu).2 rfl
        rw [hm0] at e2
        refine handleAppendResponseAccepted_g hA hnb hs (by rw [e1]; exact hin hrej')
          (fun old ho => by rw [hg] at ho; cases ho; omega) h h0

theorem filterProposal_msgs {a : Raft} : ∀ (es : List Entry) (r r' : Raft) (i : Nat)
    (o : Option (List Entry)), r.filterProposal i es = (r', o) → Old a r → Old a r' := by
  intro es
  induction es with
  | nil => intro r r' i o h h0; simp only [filterProposal] at h; cases h; exact h0
  | cons e es ih =>
    intro r r' i o h h0
    simp only [filterProposal] at h
    split at h
    · cases h; exact h0
    · rename_i r1 e1 he
      have h1 : Old a r1 := by
        unfold Raft.filterProposalEntry at he
        frame_dec he <;> first | exact h0 | exact Old.mk' h0
      split at h
      · rename_i r2 es2 hf
        cases h; exact ih _ _ _ _ hf h1
      · rename_i r2 hf
        cases h; exact ih _ _ _ _ hf h1

/-- **`step_leader`**, entered with nothing queued yet and the commit index of the start -/
theorem stepLeader_g {A : Nat → Nat → Nat → Prop} {a r r' : Raft} {m : Message}
    {e : Option RaftError}
    (hA : ∀ j t x y, y ≤ x → A j t x → A j t y) (hnb : r.batchAppend = false)
    (hs : r.state = .leader) (ho : Old a r) (hcm : r.raftLog.committed = a.raftLog.committed)
    (hin : m.msgType = .msgAppendResponse → m.reject = false → A m.frm r.term m.index)
    (h : r.stepLeader m = .ok (r', e)) (h0 : G A a m r) : G A a m r' := by
  unfold Raft.stepLeader at h
  split at h
  · -- beat
    obtain ⟨r1, h1, h⟩ := Res.bind_eq_ok h
    cases h
    exact h0.sf hA (bcastHeartbeat_sf h1 SF.rfl) (.inl hs)
  · -- check quorum
    split at h
    rename_i r1 active hq
    have hsf := checkQuorumActive_sf hq SF.rfl
    have hm1 : r1.msgs = r.msgs := by
      unfold Raft.checkQuorumActive at hq
      split at hq
      cases hq; rfl
    have g1 := h0.sf hA hsf (.inl hs)
    have ho1 : Old a r1 := by unfold Old; rw [hm1]; exact ho
    split at h
    · cases h; exact becomeFollower_g _ _ g1 ho1
    · cases h; exact g1
  · -- propose
    split at h
    · cases h
    · split at h
      · cases h; exact h0
      · split at h
        · cases h; exact h0
        · split at h
          · rename_i r1 hf
            cases h
            exact h0.sf hA (filterProposal_sf _ _ _ _ _ hf SF.rfl) (.inl hs)
          · rename_i r1 es hf
            have hsf := filterProposal_sf _ _ _ _ _ hf (SF.rfl (r := r))
            have g1 := h0.sf hA hsf (.inl hs)
            have ho1 := filterProposal_msgs (a := a) _ _ _ _ _ hf ho
            have hc1 : r1.raftLog.committed = a.raftLog.committed := hsf.committed.trans hcm
            split at h
            · rename_i r2 ha
              cases h
              exact (appendEntry_g ha g1 ho1 hc1).1
            · rename_i r2 ha
              obtain ⟨g2, _, _⟩ := appendEntry_g ha g1 ho1 hc1
              obtain ⟨e1, e2, e3, e4, e5⟩ := appendEntry_spec ha
              obtain ⟨_, e7, _⟩ := appendEntry_fields ha
              obtain ⟨r3, h3, h⟩ := Res.bind_eq_ok h
              cases h
              exact g2.sf hA (bcastAppend_sf (e7.trans (hsf.batch.trans hnb)) h3 SF.rfl)
                (.inl (e5.trans (hsf.state.trans hs)))
            · cases h
            · cases h
  · -- read index
    split at h
    · cases h
    · cases h
    · cases h; exact h0
    · simp only [] at h
      have answer : ∀ r0 : Raft, G A a m r0 → r0.state = .leader →
          ((r0.handleReadyReadIndex m r0.raftLog.committed).bind (fun x =>
            match x.2 with
            | some m' => (x.1.send m').bind (fun r => .ok (r, none))
            | none => .ok (x.1, none)) : Res (Raft × Option RaftError)) = .ok (r', e) →
          G A a m r' := by
        intro r0 g0 hs0 hh
        obtain ⟨⟨r1, om⟩, h1, hh⟩ := Res.bind_eq_ok hh
        obtain ⟨hk, hty⟩ := handleReadyReadIndex_sf h1 (SF.rfl (r := r0))
        cases om with
        | none => cases hh; exact g0.sf hA hk (.inl hs0)
        | some m' =>
          obtain ⟨r2, h2, hh⟩ := Res.bind_eq_ok hh
          cases hh
          obtain ⟨t1, t2⟩ := hty _ rfl
          exact g0.sf hA (send_sf h2 (sent_other r1 m' t2 (by rw [t1]; rfl) (by rw [t1]; decide)
            (by rw [t1]; decide)) hk) (.inl hs0)
      split at h
      · exact answer r h0 hs h
      · split at h
        · split at h
          · cases h
          · obtain ⟨ro, h1, h⟩ := Res.bind_eq_ok h
            obtain ⟨r2, h2, h⟩ := Res.bind_eq_ok h
            cases h
            exact h0.sf hA (bcastHeartbeatWithCtx_sf h2 (SF.mk' SF.rfl)) (.inl hs)
        · exact answer r h0 hs h
  · -- append response
    obtain ⟨r1, h1, h⟩ := Res.bind_eq_ok h
    cases h
    rename_i hty
    exact handleAppendResponse_g hA hnb hs (hin hty) h1 h0
  · obtain ⟨r1, h1, h⟩ := Res.bind_eq_ok h
    cases h
    exact h0.sf hA (handleHeartbeatResponse_sf hnb h1 SF.rfl) (.inl hs)
  · cases h; exact h0.sf hA (handleSnapshotStatus_sf SF.rfl) (.inl hs)
  · cases h; exact h0.sf hA (handleUnreachable_sf SF.rfl) (.inl hs)
  · obtain ⟨r1, h1, h⟩ := Res.bind_eq_ok h
    cases h
    exact h0.sf hA (handleTransferLeader_sf hnb h1 SF.rfl) (.inl hs)
  · cases h; exact h0

end CC
end Raft
end RaftModel
