import RaftProofs.ClusterSnap7C

/-!
Commit safety of `ClusterSem` with log compaction AND `batch_append`, part 7J (C01n): **why the
clean-queue invariant of the batching layer does not transfer to histories with compaction** — a
concrete history (kernel-evaluated) under the joined bundle `Snap7.Hyp3wB`, with `batch_append = true`
at the leader, in which a compaction overtakes a queued `MsgAppend`:

the history of `ClusterCommit5c4M` (`c01w_hist`: node 1 leads term 1 with commit index 3, batching on;
node 3 has never been reached) continued by seven steps — node 1 ticks (heartbeats are queued) and
sends; node 3 is delivered the heartbeat, persists and sends its response; node 1 is delivered the
response and queues a `MsgAppend` for node 3 **anchored at index 0** with entry 1; before sending it, the
application of node 1 **compacts its log up to index 3** (snapshot point 2).  Now the leader's queue
holds a `MsgAppend` whose entry 1 is no longer in the leader's log: the conclusion `SubW x log` of
`ClusterB.leader_queueB` (C01f; used by `append_prov` for messages that `try_batching` glued onto) fails.
The invariant has to be restated over the uncompacted ghost logs (`Snap.FL`) before the batching layer
can be joined with the compaction layer.
-/
namespace RaftModel
namespace Cluster
namespace Snap7
open Node Raft Raft.CC ClusterB RaftProps.C02 RaftProps.C05

def sx_a16 := c02x_st (Node.call c01w_a15 none .tick)
def sx_a17 := c02x_st (Node.call sx_a16 none .drain)
/-- the heartbeat for node 3 -/
def sx_hb := sx_a16.raft.msgs.getLast!
def sx_c0 : NState := (c01w_s24.node 3).get!
def sx_c1 := c02x_st (Node.call sx_c0 none (.step sx_hb))
def sx_c2 := c02x_st (Node.call sx_c1 none .stabilize)
def sx_c3 := c02x_st (Node.call sx_c2 none .drain)
/-- node 3's heartbeat response -/
def sx_hbr := sx_c2.raft.msgs.head!
def sx_a18 := c02x_st (Node.call sx_a17 none (.step sx_hbr))
def sx_a19 := c02x_st (Node.call sx_a18 none (.compact 3))
/-- the `MsgAppend` for node 3 that the compaction overtakes: anchor 0, entry 1 -/
def sx_app := sx_a19.raft.msgs.head!

def sx_s25 : Sys := c01w_s24.setNode 1 sx_a16
def sx_s26 : Sys := { (sx_s25.setNode 1 sx_a17) with net := sx_s25.net ++ sx_a16.raft.msgs }
def sx_s27 : Sys := sx_s26.setNode 3 sx_c1
def sx_s28 : Sys := sx_s27.setNode 3 sx_c2
def sx_s29 : Sys := { (sx_s28.setNode 3 sx_c3) with net := sx_s28.net ++ sx_c2.raft.msgs }
def sx_s30 : Sys := sx_s29.setNode 1 sx_a18
def sx_s31 : Sys := sx_s30.setNode 1 sx_a19

def sx_tail : List Sys := [sx_s25, sx_s26, sx_s27, sx_s28, sx_s29, sx_s30, sx_s31]
def sx_hist : List Sys := c01w_hist ++ sx_tail

set_option maxRecDepth 100000 in
theorem sx_ksteps_tail : Chained Snap.KStep (c01w_s24 :: sx_tail) := by
  refine ⟨?_, ?_, ?_, ?_, ?_, ?_, ?_, trivial⟩
  · exact Snap.KStep.call _ 1 c01w_a15 sx_a16 none .tick _ rfl rfl
      (fun k hc => by cases hc) (fun k hc => by cases hc) (c02x_out _ (by decide))
  · exact Snap.KStep.send _ 1 sx_a16 sx_a17 rfl ⟨by decide, by decide⟩
      (fun hc => absurd (by decide) hc) rfl
  · exact Snap.KStep.deliver _ 3 sx_c0 sx_c1 none sx_hb _ rfl
      (List.mem_append_right _ (by decide)) (by decide) (c02x_out _ (by decide))
  · exact Snap.KStep.call _ 3 sx_c1 sx_c2 none .stabilize _ rfl rfl
      (fun k hc => by cases hc) (fun k hc => by cases hc) (c02x_out _ (by decide))
  · exact Snap.KStep.send _ 3 sx_c2 sx_c3 rfl ⟨by decide, by decide⟩
      (fun _ => ⟨by decide, rfl⟩) rfl
  · exact Snap.KStep.deliver _ 1 sx_a17 sx_a18 none sx_hbr _ rfl
      (List.mem_append_right _ (c02x_head_mem _ (by decide))) (by decide) (c02x_out _ (by decide))
  · exact Snap.KStep.call _ 1 sx_a18 sx_a19 none (.compact 3) _ rfl rfl
      (fun k hc => by cases hc; exact ⟨by decide, by decide⟩) (fun k hc => by cases hc)
      (Snap.c02x_out' _ (by decide))

theorem sx_hist_eq : sx_hist =
    (c01x_hist ++ [c01w_s15, c01w_s16, c01w_s17, c01w_s18, c01w_s19, c01w_s20, c01w_s21, c01w_s22,
      c01w_s23]) ++ c01w_s24 :: sx_tail := by
  simp [sx_hist, c01w_hist, c01w_tail]

theorem sx_ksteps : Chained Snap.KStep sx_hist := by
  rw [sx_hist_eq]
  refine Cluster.chained_append _ _ _ ?_ sx_ksteps_tail
  have := Chained.mono (fun _ _ hc => Snap.KStep.of_old hc) _ c01w_ksteps_all
  simpa [c01w_hist, c01w_tail] using this

theorem sx_history : History sx_hist := by
  rw [sx_hist_eq]
  refine chained_history _ c01w_s24 ?_ _ (Chained.mono (fun _ _ hc => hc.step) _ sx_ksteps_tail)
  have := c01w_history
  simpa [c01w_hist, c01w_tail] using this

set_option maxRecDepth 100000 in
theorem sx_chk_tail : ∀ s ∈ sx_tail, nx_chk s = true := by
  intro s hs
  simp only [sx_tail, List.mem_cons, List.not_mem_nil, or_false] at hs
  rcases hs with rfl | rfl | rfl | rfl | rfl | rfl | rfl <;> decide

theorem sx_all : ∀ s ∈ sx_hist,
    FixedCfg c02x_cfg s ∧ (∀ x ∈ s.net, x.msgType ≠ .msgSnapshot) ∧
    ∀ i st, s.node i = some st → st.raft.raftLog.unstable.snapshot = none := by
  intro s hs
  rcases List.mem_append.1 hs with c | c
  · exact ⟨c01w_hyp3wB.fix s c, fun x hx => c01w_hyp3wB.nosnap s c x hx,
      fun i st hi => (c01w_hyp3wB.shape s c i st hi).1⟩
  · exact nx_chk_ok s (sx_chk_tail s c)

/-- **the history satisfies every hypothesis of the joined bundle** -/
theorem sx_hyp3wB : Hyp3wB c02x_cfg 0 sx_hist := by
  have h0 : sx_hist[0]? = some c02x_s0 := rfl
  have h0' : c01w_hist[0]? = some c02x_s0 := rfl
  have W := c01w_hyp3wB
  exact
    { hist := sx_history, fix := fun s hs => (sx_all s hs).1, ne := W.ne, nd1 := W.nd1,
      nd2 := W.nd2,
      init := fun s hs => W.init s (by rw [h0'] ; rw [h0] at hs; exact hs),
      steps := chained_at _ sx_ksteps,
      nosnap := fun s hs x hx => (sx_all s hs).2.1 x hx,
      nolone := W.nolone,
      nopend := fun s hs i st hi => (sx_all s hs).2.2 i st hi,
      first0 := fun s hs i st hi =>
        (W.shape s (Snap.mem_of_get (by rw [h0']; rw [h0] at hs; exact hs)) i st hi).2,
      initc := fun s hs => W.initc s (by rw [h0']; rw [h0] at hs; exact hs),
      c0z := rfl,
      snapt0 := fun s hs => W.snapt0 s (by rw [h0']; rw [h0] at hs; exact hs) }

set_option maxRecDepth 100000 in
/-- in the last state the leader's queue holds a `MsgAppend` that is not a sub-log of the leader's log -/
theorem sx_not_sub : sx_app ∈ sx_a19.raft.msgs ∧ sx_app.msgType = .msgAppend ∧
    sx_a19.raft.state = .leader ∧ sx_a19.raft.batchAppend = true ∧
    sx_a19.raft.raftLog.abs.snapIdx = 2 ∧ sx_app.index = 0 ∧
    ¬ SubW sx_app sx_a19.raft.raftLog.abs := by
  refine ⟨c02x_head_mem _ (by decide), by decide, by decide, by decide, by decide, by decide, ?_⟩
  intro hs
  have h1 : ((msgLog sx_app).entryAt 1).isSome = true := by decide
  have h2 : (sx_a19.raft.raftLog.abs.entryAt 1).isSome = false := by decide
  cases he : (msgLog sx_app).entryAt 1 with
  | none => rw [he] at h1; cases h1
  | some e =>
    have := (hs.2 1 e he).1
    rw [this] at h2; cases h2

end Snap7
end Cluster
end RaftModel
