import RaftProofs.ClusterCommitQ

/-!
Cluster-level commit safety, part R: **provenance of messages**.  Whatever is in a queue or in the
transport was queued by a `call` / `deliver` step of its sender; a fact `Φ n i x` established for the
state right after that step (index `n` of the history, node `i`) is available for the message ever
after.
-/
namespace RaftModel
namespace Cluster
open Node Raft Raft.CC

/-- `x` was queued by node `i` in the step that led to `h[n]`, for some `n ≤ N`, with `Φ n i x` -/
def Gen (Φ : Nat → Nat → Message → Prop) (N i : Nat) (x : Message) : Prop := ∃ n, n ≤ N ∧ Φ n i x

theorem Gen.mono {Φ : Nat → Nat → Message → Prop} {N N' i : Nat} {x : Message} (h : Gen Φ N i x)
    (hle : N ≤ N') : Gen Φ N' i x := by
  obtain ⟨n, h1, h2⟩ := h
  exact ⟨n, Nat.le_trans h1 hle, h2⟩

/-- a history starts in an initial state -/
theorem hist_init {h : List Sys} (hh : History h) : ∀ s, h[0]? = some s → Init s := by
  induction hh with
  | init s0 hi => intro s h0; simp at h0; subst h0; exact hi
  | step l a b _ _ ih =>
    intro s h0
    apply ih s
    cases l with
    | nil => simpa using h0
    | cons x t => simpa using h0

/-- the queue of a freshly booted node is empty -/
theorem init_queue {s : Sys} (h : Init s) (i : Nat) (st : NState) (hi : s.node i = some st) :
    st.raft.msgs = [] := by
  obtain ⟨c, store, rnd, _, hb⟩ := h.2 i st hi
  exact (CV.boot_booted c store rnd st hb).msgs

/-- **provenance**: `K` selects the kind of message; the hypothesis `hfresh` says what a `call` /
`deliver` step establishes for every message of that kind it queues -/
theorem provenance (h : List Sys) (hh : History h)
    (hk : ∀ (n : Nat) (a b : Sys), h[n]? = some a → h[n + 1]? = some b → KStep a b)
    (K : Message → Prop)
    (Φ : Nat → Nat → Message → Prop)
    (hfresh : ∀ n a b i st st' rnd op res, h[n]? = some a → h[n + 1]? = some b →
      a.node i = some st → b.node i = some st' → Node.call st rnd op = .ok (res, st') →
      (appOp op = true ∨ ∃ m, op = .step m ∧ m ∈ a.net ∧ m.to = i) → (∀ j, op ≠ .compact j) →
      b.net = a.net →
      ∀ x ∈ st'.raft.msgs, K x → x ∈ st.raft.msgs ∨ Φ (n + 1) i x) :
    ∀ n s, h[n]? = some s →
      (∀ i st, s.node i = some st → ∀ x ∈ st.raft.msgs, K x → Gen Φ n i x) ∧
      (∀ x ∈ s.net, K x → ∃ i, Gen Φ n i x) := by
  refine hist_induct h _ ?_ ?_
  · intro s h0
    have hinit : Init s := hist_init hh s h0
    refine ⟨fun i st hi x hx _ => ?_, fun x hx _ => ?_⟩
    · rw [init_queue hinit i st hi] at hx; cases hx
    · rw [hinit.1] at hx; cases hx
  · intro n a b ha hb ⟨ihq, ihn⟩
    have hstep := hk n a b ha hb
    have up : ∀ {i x}, Gen Φ n i x → Gen Φ (n + 1) i x := fun g => g.mono (Nat.le_succ n)
    cases hstep with
    | call k st st' rnd op res h1 h2 hnc _ h3 =>
      have hop : appOp op = true ∨ ∃ m, op = .step m ∧ m ∈ a.net ∧ m.to = k := .inl h2
      refine ⟨fun i sti hi x hx hk => ?_, fun x hx hk => (ihn x hx hk).imp (fun _ g => up g)⟩
      by_cases hik : i = k
      · subst hik
        rw [node_setNode_self] at hi; cases hi
        rcases hfresh n a _ i st st' rnd op res ha hb h1 (node_setNode_self a i st') h3 hop hnc rfl x hx hk
          with g | g
        · exact up (ihq i st h1 x g hk)
        · exact ⟨n + 1, Nat.le_refl _, g⟩
      · rw [node_setNode_ne a k i st' hik] at hi
        exact up (ihq i sti hi x hx hk)
    | deliver k st st' rnd m res h1 h2 h3 h4 =>
      refine ⟨fun i sti hi x hx hk => ?_, fun x hx hk => (ihn x hx hk).imp (fun _ g => up g)⟩
      by_cases hik : i = k
      · subst hik
        rw [node_setNode_self] at hi; cases hi
        rcases hfresh n a _ i st st' rnd (.step m) res ha hb h1 (node_setNode_self a i st') h4
          (.inr ⟨m, rfl, h2, h3⟩) (fun j hc => by cases hc) rfl x hx hk with g | g
        · exact up (ihq i st h1 x g hk)
        · exact ⟨n + 1, Nat.le_refl _, g⟩
      · rw [node_setNode_ne a k i st' hik] at hi
        exact up (ihq i sti hi x hx hk)
    | send k st st' h1 h2 _ h3 =>
      have hq : st'.raft.msgs = [] := by
        unfold Node.call at h3
        simp only [applyOp] at h3
        cases h3; rfl
      refine ⟨fun i sti hi x hx hk => ?_, fun x hx hk => ?_⟩
      · have hi' : (a.setNode k st').node i = some sti := hi
        by_cases hik : i = k
        · subst hik
          rw [node_setNode_self] at hi'; cases hi'
          rw [hq] at hx; cases hx
        · rw [node_setNode_ne a k i st' hik] at hi'
          exact up (ihq i sti hi' x hx hk)
      · rcases List.mem_append.1 hx with g | g
        · exact (ihn x g hk).imp (fun _ g => up g)
        · exact ⟨k, up (ihq k st h1 x g hk)⟩
    | restart k st st' c rnd h1 h2 h3 =>
      refine ⟨fun i sti hi x hx hk => ?_, fun x hx hk => (ihn x hx hk).imp (fun _ g => up g)⟩
      by_cases hik : i = k
      · subst hik
        rw [node_setNode_self] at hi; cases hi
        rw [(CV.boot_booted c _ rnd st' h3).msgs] at hx; cases hx
      · rw [node_setNode_ne a k i st' hik] at hi
        exact up (ihq i sti hi x hx hk)

end Cluster
end RaftModel
