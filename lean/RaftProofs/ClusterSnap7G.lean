import RaftProofs.ClusterCommit5S
import RaftProofs.ClusterSnap7A
import RaftProofs.ClusterSnap7F

/-! SCRIPTED COPY (C01n, `RaftProps/C01n.gen/copy_pw.py` + `patches_pw.py`) of `RaftProofs/ClusterCommit5S.lean`
into the nested namespace `RaftModel.Raft.PB.F`: the per-call relation of the batching layer with the
two extra facts `fi` / `qf` (anchors of new appends are not below the snapshot point). -/

namespace RaftModel
namespace Raft
namespace PB
namespace F
open CP Node RaftProps.C13

theorem stepIgnore_pw {a r r' : Raft} {m : Message} (h : r.stepIgnore m = .ok r') (h0 : PWb a r)
    (hna : m.msgType ≠ .msgAppend) (hms : m.msgType ≠ .msgSnapshot)
    (hnr : m.msgType ≠ .msgAppendResponse) : PWb a r' := by
  unfold Raft.stepIgnore at h
  rw [Res.bind_eq_ok_iff] at h
  obtain ⟨⟨r1, e⟩, h1, h2⟩ := h
  cases h2
  exact step_pw h1 h0 hna hms (fun _ hc => absurd hc hnr)

theorem tickElection_pw {a r r' : Raft} {b : Bool} (h : r.tickElection = .ok (r', b))
    (h0 : PWb a r) : PWb a r' := by
  unfold Raft.tickElection at h
  simp only [] at h
  split at h
  · cases h; exact PWb.mk' h0
  · rw [Res.bind_eq_ok_iff] at h
    obtain ⟨r1, h1, h2⟩ := h
    cases h2
    exact stepIgnore_pw h1 (PWb.mk' (r := { r with electionElapsed := r.electionElapsed + 1 })
      (PWb.mk' h0)) (by intro hc; cases hc) (by intro hc; cases hc) (by intro hc; cases hc)

theorem tickHeartbeat_pw {a r r' : Raft} {b : Bool} (h : r.tickHeartbeat = .ok (r', b))
    (h0 : PWb a r) : PWb a r' := by
  unfold Raft.tickHeartbeat at h
  simp only [] at h
  rw [Res.bind_eq_ok_iff] at h
  obtain ⟨⟨r1, b1⟩, h1, h2⟩ := h
  have g0 : PWb a ({ r with heartbeatElapsed := r.heartbeatElapsed + 1 } : Raft) := PWb.mk' h0
  have g1 : PWb a r1 := by
    split at h1
    · rw [Res.bind_eq_ok_iff] at h1
      obtain ⟨⟨r2, b2⟩, h3, h4⟩ := h1
      have g2 : PWb a r2 := by
        split at h3
        · rw [Res.bind_eq_ok_iff] at h3
          obtain ⟨r3, h5, h6⟩ := h3
          cases h6
          exact stepIgnore_pw h5 (PWb.mk' h0) (by intro hc; cases hc) (by intro hc; cases hc)
            (by intro hc; cases hc)
        · cases h3; exact PWb.mk' h0
      dsimp only at h4
      split at h4
      · cases h4; exact PWb.mk' g2
      · cases h4; exact g2
    · cases h1; exact PWb.mk' h0
  dsimp only at h2
  split at h2
  · cases h2; exact g1
  · split at h2
    · rw [Res.bind_eq_ok_iff] at h2
      obtain ⟨r3, h5, h6⟩ := h2
      cases h6
      exact stepIgnore_pw h5 (PWb.mk' g1) (by intro hc; cases hc) (by intro hc; cases hc)
        (by intro hc; cases hc)
    · cases h2; exact g1

theorem tick_pw {a r r' : Raft} {b : Bool} (h : r.tick = .ok (r', b)) (h0 : PWb a r) :
    PWb a r' := by
  unfold Raft.tick at h
  split at h
  · exact tickElection_pw h h0
  · exact tickElection_pw h h0
  · exact tickElection_pw h h0
  · exact tickHeartbeat_pw h h0

theorem maybeSendAppend_lw {a r r' : Raft} {to : Nat} {pr pr' : Progress} {ae b : Bool}
    (h : r.maybeSendAppend to pr ae = .ok (r', pr', b)) (h0 : LWb a r) (hp : PQ r pr) :
    LWb a r' ∧ PQ r' pr' := by
  obtain ⟨g1, g2⟩ := maybeSendAppend_pw h h0.1 hp
  exact ⟨⟨g1, (maybeSendAppend_frame h Frame.rfl).state.trans h0.2⟩, g2⟩

theorem recvAck_lw {a r : Raft} (id : Nat) (ctx : Bytes) (h0 : LWb a r) :
    LWb a { r with readOnly := (r.readOnly.recvAck id ctx).1 } := by
  refine ⟨h0.1.ro (fun hs p hp => ?_), h0.2⟩
  obtain ⟨q, hq, he⟩ := recvAck_index _ _ _ p hp
  rw [← he]; exact h0.1.rd hs q hq

theorem advance_lw {a r r' : Raft} {ro ro2 : ReadOnly} {ctx : Bytes} {rss : List ReadIndexStatus}
    (h0 : LWb a { r with readOnly := ro }) (ha : ro.advance ctx = .ok (ro2, rss))
    (h : ({ r with readOnly := ro2 } : Raft).respondReadStates rss = .ok r') : LWb a r' := by
  obtain ⟨s1, s2⟩ := advance_sub ha
  have g3 : LWb a { r with readOnly := ro2 } :=
    ⟨(h0.1.ro (ro := ro2) (fun hs p hp => h0.1.rd hs p (s1 p hp))), h0.2⟩
  refine respondReadStates_lw h g3 (fun rs hrs => ?_)
  obtain ⟨k, hk⟩ := s2 rs hrs
  exact h0.1.rd h0.2 (k, rs) hk

theorem postConfChange_pw {a r r' : Raft} {cs : ConfState}
    (h : r.postConfChange = .ok (r', cs)) (h0 : PWb a r) : PWb a r' := by
  unfold Raft.postConfChange at h
  simp only [] at h
  have g0 : PWb a { r with promotable := Joint.contains r.prs.voters r.id } := PWb.mk' h0
  split at h
  · cases h; exact becomeFollower_pw _ _ g0
  · split at h
    · cases h; exact g0
    · rename_i hl
      have hlead : r.state = .leader := by
        apply Classical.byContradiction
        intro hc; exact hl (.inl hc)
      have l0 : LWb a { r with promotable := Joint.contains r.prs.voters r.id } := ⟨g0, hlead⟩
      rw [Res.bind_eq_ok_iff] at h
      obtain ⟨r1, h1, h2⟩ := h
      have l1 : LWb a r1 := by
        split at h1
        · rename_i r2 hm
          exact bcastAppend_lw h1 (maybeCommit_lw hm l0)
        · rename_i r2 hm
          refine forEachPeer_lw (fun r id pr r' pr' hf g hp => ?_) h1 (maybeCommit_lw hm l0)
          rw [Res.bind_eq_ok_iff] at hf
          obtain ⟨⟨r3, pr3, b3⟩, h3, h4⟩ := hf
          cases h4
          exact maybeSendAppend_lw h3 g hp
        · cases h1
        · cases h1
      rw [Res.bind_eq_ok_iff] at h2
      obtain ⟨r4, h3, h4⟩ := h2
      have l4 : LWb a r4 := by
        split at h3
        · cases h3; exact l1
        · rename_i ctx hctx
          have l2 := recvAck_lw r1.id ctx l1
          split at h3
          · split at h3
            · rw [Res.bind_eq_ok_iff] at h3
              obtain ⟨⟨ro2, rss⟩, h5, h6⟩ := h3
              exact advance_lw l2 h5 h6
            · cases h3; exact l2
          · cases h3; exact l2
      cases h4
      split
      · split
        · exact (LWb.mk' l4).1
        · exact l4.1
      · exact l4.1

theorem applyConfChange_pw {a r r' : Raft} {cc : ConfChangeV2} {res : Except ErrKind ConfState}
    (h : r.applyConfChange cc = .ok (r', res)) (h0 : PWb a r) : PWb a r' := by
  unfold Raft.applyConfChange at h
  simp only [] at h
  split at h
  · cases h; exact h0
  · rename_i cfg changes _
    rw [Res.bind_eq_ok_iff] at h
    obtain ⟨⟨r1, cs⟩, h1, h2⟩ := h
    cases h2
    refine postConfChange_pw h1 (h0.prs (fun hs => ?_))
    rcases h0.po hs with c | c
    · exact .inl c
    · exact .inr (c.applyConf _ _)

theorem onPersistEntries_pw {a r r' : Raft} {index term : Nat}
    (h : r.onPersistEntries index term = .ok r') (h0 : PWb a r) : PWb a r' := by
  unfold Raft.onPersistEntries at h
  split at h
  · cases h
  · cases h
  · rename_i log update hmp
    obtain ⟨l', b', hmp', hinv', habs', hc', _, _, hb'⟩ :=
      RaftLog.Inv.maybePersist h0.inv index term
    rw [hmp] at hmp'
    cases hmp'
    have hlast : log.lastIndex = r.raftLog.lastIndex := by
      rw [hinv'.lastIndex_abs, h0.inv.lastIndex_abs, habs']
    have hls : LogSame r.raftLog log := ⟨habs', hlast, fun _ => hinv', by omega⟩
    have g1 : PWb a { r with raftLog := log } := h0.log hls
    simp only [] at h
    split at h
    · rename_i hcond
      have l1 : LWb a { r with raftLog := log } := ⟨g1, hcond.2⟩
      split at h
      · cases h; exact g1
      · rename_i pr hg
        split at h
        · cases h
        · cases h
        · rename_i pr1 updated hu
          have hidx : index ≤ log.lastIndex := by
            have := (hb' hcond.1).1
            rw [← this]; exact Inv.persisted_le_last hinv'
          have l2 : LWb a { ({ r with raftLog := log } : Raft) with
              prs := ({ r with raftLog := log } : Raft).prs.set r.id pr1 } :=
            l1.setPr (PQ.imp (l1.getPr hg) (fun c => c.maybeUpdate hidx hu))
          split at h
          · split at h
            · rename_i r2 hm
              split at h
              · exact (bcastAppend_lw h (maybeCommit_lw hm l2)).1
              · cases h; exact (maybeCommit_lw hm l2).1
            · rename_i r2 hm
              cases h; exact (maybeCommit_lw hm l2).1
            · cases h
            · cases h
          · cases h; exact l2.1
    · cases h; exact g1

theorem commitApplyInternal_pw {a r r' : Raft} {applied : Nat} {skip : Bool}
    (h : r.commitApplyInternal applied skip = .ok r') (h0 : PWb a r) : PWb a r' := by
  unfold Raft.commitApplyInternal at h
  simp only [] at h
  split at h
  · cases h
  · cases h
  · rename_i log hlog
    obtain ⟨a', hl, _, _⟩ := RaftProps.PDGuards.applyCursor_cases _ _ _ _ hlog
    have hinv1 : log.Inv := by
      rw [hl]
      exact h0.inv.set_cursors r.raftLog.committed r.raftLog.persisted a' h0.inv.dummy_le_committed
        h0.inv.committed_le_last h0.inv.persisted_lt_off h0.inv.persisted_le_store
    have hls : LogSame r.raftLog log :=
      ⟨by rw [hl]; rfl, by rw [hl]; rfl, fun _ => hinv1, by rw [hl]; exact Nat.le_refl _⟩
    have g1 : PWb a { r with raftLog := log } := h0.log hls
    split at h
    · rename_i hcond
      split at h
      · rename_i r2 happe
        cases h
        exact (LWb.mk' (appendEntry_lw happe ⟨g1, hcond.2.2.2⟩)).1
      · cases h
      · cases h
      · cases h
    · cases h; exact g1

theorem enableGroupCommit_pw {a r r' : Raft} {b : Bool}
    (h : r.enableGroupCommit b = .ok r') (h0 : PWb a r) : PWb a r' := by
  unfold Raft.enableGroupCommit at h
  simp only [] at h
  have g0 : PWb a { r with prs := { r.prs with groupCommit := b } } := h0.prs h0.po
  split at h
  · rename_i hc
    have l0 : LWb a { r with prs := { r.prs with groupCommit := b } } := ⟨g0, hc.1⟩
    split at h
    · rename_i r1 hm
      exact (bcastAppend_lw h (maybeCommit_lw hm l0)).1
    · rename_i r1 hm
      cases h; exact (maybeCommit_lw hm l0).1
    · cases h
    · cases h
  · cases h; exact g0

theorem assignCommitGroups_pw {a r r' : Raft} {ids : List (Nat × Nat)}
    (h : r.assignCommitGroups ids = .ok r') (h0 : PWb a r) : PWb a r' := by
  unfold Raft.assignCommitGroups at h
  simp only [] at h
  rw [Res.bind_eq_ok_iff] at h
  obtain ⟨r1, h1, h2⟩ := h
  have g1 : PWb a r1 ∧ r1.state = r.state := by
    have key : ∀ (l : List (Nat × Nat)) (acc : Res Raft),
        l.foldl (fun (acc : Res Raft) (p : Nat × Nat) =>
          acc.bind (fun r =>
            if p.2 = 0 then .panic "raft.assign_commit_groups.assert"
            else .ok (r.modifyProgress p.1 (fun pr => { pr with commitGroupId := p.2 })))) acc
          = .ok r1 →
        (∀ r0, acc = .ok r0 → PWb a r0 ∧ r0.state = r.state) → PWb a r1 ∧ r1.state = r.state := by
      intro l
      induction l with
      | nil => intro acc hh hacc; exact hacc r1 hh
      | cons p rest ih =>
        intro acc hh hacc
        simp only [List.foldl_cons] at hh
        refine ih _ hh ?_
        intro r2 h2
        cases acc with
        | err e => cases h2
        | panic s => cases h2
        | ok r0 =>
          obtain ⟨k1, k2⟩ := hacc r0 rfl
          simp only [Res.bind] at h2
          split at h2
          · cases h2
          · cases h2
            refine ⟨PWb.prs k1 (fun hs => (k1.po hs).imp (fun x => x)
              (fun c => c.modify _ _ (fun pr hp => hp.congr rfl rfl rfl))), k2⟩
    exact key ids (.ok r) h1 (fun r0 e => by cases e; exact ⟨h0, rfl⟩)
  split at h2
  · rename_i hc
    have l0 : LWb a r1 := ⟨g1.1, hc.1⟩
    split at h2
    · rename_i r2 hm
      exact (bcastAppend_lw h2 (maybeCommit_lw hm l0)).1
    · rename_i r2 hm
      cases h2; exact (maybeCommit_lw hm l0).1
    · cases h2
    · cases h2
  · cases h2; exact g1.1

theorem ping_pw {a r r' : Raft} (h : r.ping = .ok r') (h0 : PWb a r) : PWb a r' := by
  unfold Raft.ping at h
  split at h
  · rename_i hs
    exact (bcastHeartbeat_lw h ⟨h0, hs⟩).1
  · cases h; exact h0

theorem adjustMaxInflightMsgs_pw {a r r' : Raft} {t c : Nat}
    (h : r.adjustMaxInflightMsgs t c = .ok r') (h0 : PWb a r) : PWb a r' := by
  unfold Raft.adjustMaxInflightMsgs at h
  split at h
  · cases h; exact h0
  · rename_i pr hg
    split at h
    · cases h
      refine h0.prs (fun hs => ?_)
      rcases h0.po hs with d | d
      · exact .inl d
      · exact .inr (d.set _ ((d.get hg).congr rfl rfl rfl))
    · cases h

theorem maybeFreeInflightBuffers_pw {a r : Raft} (h0 : PWb a r) :
    PWb a r.maybeFreeInflightBuffers := by
  unfold Raft.maybeFreeInflightBuffers Raft.mapProgress
  exact h0.prs (fun hs => (h0.po hs).imp (fun x => x)
    (fun c => c.map (fun _ pr => { pr with ins := pr.ins.maybeFreeBuffer })
      (fun id pr hp => hp.congr rfl rfl rfl)))

theorem clearCommitGroup_pw {a r : Raft} (h0 : PWb a r) : PWb a r.clearCommitGroup := by
  unfold Raft.clearCommitGroup Raft.mapProgress
  exact h0.prs (fun hs => (h0.po hs).imp (fun x => x)
    (fun c => c.map (fun _ pr => { pr with commitGroupId := 0 })
      (fun id pr hp => hp.congr rfl rfl rfl)))

theorem PRb.of_same {a r r' : Raft} (h : PRb a r) (hs : r'.state = r.state) (hp : r'.prs = r.prs)
    (hro : r'.readOnly = r.readOnly) (hm : r'.msgs = r.msgs)
    (hl : r.raftLog.lastIndex ≤ r'.raftLog.lastIndex)
    (hc : r.raftLog.committed ≤ r'.raftLog.committed) : PRb a r' := by
  refine ⟨fun c => ?_, fun c p hp' => ?_, fun x hx hty => ?_, fun x hx hty => ?_, ?_,
    by rw [hm]; exact h.qf⟩
  · rw [hs] at c; rw [hm, hp]
    exact (h.po c).imp (fun x => x) (fun d => d.mono hl)
  · rw [hs] at c; rw [hro] at hp'
    exact Nat.le_trans (h.rd c p hp') hc
  · rw [hm] at hx ⊢
    rcases h.qa x hx hty with d | d | d
    · exact .inl d
    · exact .inr (.inl d)
    · exact .inr (.inr (Nat.le_trans d hl))
  · rw [hm] at hx
    rcases h.qr x hx hty with d | d
    · exact .inl d
    · exact .inr (Nat.le_trans d hc)
  · rw [hm]; exact h.sn

theorem PRb.rebase {a a' r : Raft} (h : PRb a r) (hm : a'.msgs = a.msgs)
    (hl : a'.raftLog = a.raftLog) : PRb a' r :=
  ⟨h.po, h.rd, by rw [hm]; exact h.qa, by rw [hm]; exact h.qr, by rw [hm]; exact h.sn,
    by rw [hm, hl]; exact h.qf⟩

/-- `RawNode::step` -/
theorem rawStep_pr {a r r' : Raft} {m : Message} {e : Option RaftError}
    (h : RawNode.step r m = .ok (r', e)) (h0 : PWb a r) (hn : NF a r)
    (hms : m.msgType ≠ .msgSnapshot)
    (hB : r.state = .leader → m.msgType = .msgAppendResponse → m.reject = false →
      (m.term = 0 ∨ m.term = r.term) → m.index ≤ r.raftLog.lastIndex) : PRb a r' := by
  unfold RawNode.step at h
  split at h
  · cases h; exact h0.pr
  · split at h
    · by_cases hty : m.msgType = .msgAppend
      · exact step_app_pr h h0 hn hty
      · exact (step_pw h h0 hty hms hB).pr
    · cases h; exact h0.pr

theorem localStep_pr {a r r' : Raft} {m : Message} {e : Option RaftError}
    (h : r.step m = .ok (r', e)) (h0 : PWb a r) (hna : m.msgType ≠ .msgAppend)
    (hms : m.msgType ≠ .msgSnapshot) (hnr : m.msgType ≠ .msgAppendResponse) : PRb a r' :=
  (step_pw h h0 hna hms (fun _ hc => absurd hc hnr)).pr

/-- **one call of a node** -/
theorem call_prb (st st' : NState) (rnd : Option Nat) (op : NodeOp) (res : OpRes)
    (hinv : st.raft.raftLog.Inv)
    (hop : op ≠ .drain ∧ ∀ m, op ≠ .rstep m) (hc : ∀ k, op ≠ .compact k)
    (hsn : st.raft.raftLog.unstable.snapshot = none)
    (hms : ∀ m, op = .step m → m.msgType ≠ .msgSnapshot)
    (hpo : st.raft.state = .leader →
      QSnap st.raft.msgs ∨ PAll st.raft.raftLog.lastIndex st.raft.prs)
    (hrd : st.raft.state = .leader → ∀ p ∈ st.raft.readOnly.pendingReadIndex,
      p.2.index ≤ st.raft.raftLog.committed)
    (hB : ∀ m, op = .step m → st.raft.state = .leader → m.msgType = .msgAppendResponse →
      m.reject = false → (m.term = 0 ∨ m.term = st.raft.term) →
      m.index ≤ st.raft.raftLog.lastIndex)
    (h : Node.call st rnd op = .ok (res, st')) : PRb st.raft st'.raft := by
  unfold Node.call at h
  have h0 : PWb ({ st.raft with nextRand := rnd } : Raft) ({ st.raft with nextRand := rnd } : Raft) :=
    PWb.start hinv hpo hrd
  have hinv' : ({ st.raft with nextRand := rnd } : Raft).raftLog.Inv := hinv
  have hsn' : ({ st.raft with nextRand := rnd } : Raft).raftLog.unstable.snapshot = none := hsn
  refine PRb.rebase (a := ({ st.raft with nextRand := rnd } : Raft)) (a' := st.raft) ?_ rfl rfl
  cases op with
  | tick =>
    simp only [applyOp] at h
    split at h
    · rename_i raft b heq
      cases h
      exact (tick_pw heq h0).pr
    · cases h
    · cases h
  | step m =>
    simp only [applyOp] at h
    obtain ⟨raft, e, hx, hr⟩ := CV.unitRes_ok h
    rw [hr]
    exact rawStep_pr hx h0 NF.rfl (hms m rfl) (hB m rfl)
  | rstep m => exact absurd rfl (hop.2 m)
  | propose c d =>
    simp only [applyOp] at h
    obtain ⟨raft, e, hx, hr⟩ := CV.unitRes_ok h
    rw [hr]
    exact localStep_pr hx h0 (by intro hc; cases hc) (by intro hc; cases hc) (by intro hc; cases hc)
  | proposeCc t c d =>
    simp only [applyOp] at h
    obtain ⟨raft, e, hx, hr⟩ := CV.unitRes_ok h
    rw [hr]
    exact localStep_pr hx h0 (by intro hc; cases hc) (by intro hc; cases hc) (by intro hc; cases hc)
  | readIndex c =>
    simp only [applyOp] at h
    obtain ⟨raft, hx, hr⟩ := CV.okRes_ok h
    rw [hr]
    exact (stepIgnore_pw hx h0 (by intro hc; cases hc) (by intro hc; cases hc)
      (by intro hc; cases hc)).pr
  | transferLeader x =>
    simp only [applyOp] at h
    obtain ⟨raft, hx, hr⟩ := CV.okRes_ok h
    rw [hr]
    exact (stepIgnore_pw hx h0 (by intro hc; cases hc) (by intro hc; cases hc)
      (by intro hc; cases hc)).pr
  | campaign =>
    simp only [applyOp] at h
    obtain ⟨raft, e, hx, hr⟩ := CV.unitRes_ok h
    rw [hr]
    exact localStep_pr hx h0 (by intro hc; cases hc) (by intro hc; cases hc) (by intro hc; cases hc)
  | ping =>
    simp only [applyOp] at h
    obtain ⟨raft, hx, hr⟩ := CV.okRes_ok h
    rw [hr]
    exact (ping_pw hx h0).pr
  | requestSnapshot =>
    simp only [applyOp] at h
    obtain ⟨raft, e, hx, hr⟩ := CV.unitRes_ok h
    rw [hr]
    exact (requestSnapshot_pw hx h0).pr
  | reportUnreachable x =>
    simp only [applyOp] at h
    obtain ⟨raft, hx, hr⟩ := CV.okRes_ok h
    rw [hr]
    exact (stepIgnore_pw hx h0 (by intro hc; cases hc) (by intro hc; cases hc)
      (by intro hc; cases hc)).pr
  | reportSnapshot x f =>
    simp only [applyOp] at h
    obtain ⟨raft, hx, hr⟩ := CV.okRes_ok h
    rw [hr]
    exact (stepIgnore_pw hx h0 (by intro hc; cases hc) (by intro hc; cases hc)
      (by intro hc; cases hc)).pr
  | applyConfChange cc =>
    simp only [applyOp] at h
    split at h
    · rename_i raft cs heq
      cases h
      exact (applyConfChange_pw heq h0).pr
    · rename_i raft e heq
      cases h
      exact (applyConfChange_pw heq h0).pr
    · cases h
    · cases h
  | stabilize =>
    simp only [applyOp, Node.stabilize] at h
    split at h
    · rename_i l hl0
      have hl : ({ st.raft with nextRand := rnd } : Raft).raftLog.stabilise = .ok l := hl0
      cases h
      obtain ⟨l2, k1, k2, k3, k4, _⟩ := RaftProps.C14.stabilise_ok hinv' hsn'
      rw [hl] at k1
      cases k1
      refine PRb.of_same h0.pr rfl rfl rfl rfl ?_ ?_
      · show st.raft.raftLog.lastIndex ≤ l.lastIndex
        rw [k2.lastIndex_abs, hinv.lastIndex_abs, k3]
        exact Nat.le_refl _
      · show st.raft.raftLog.committed ≤ l.committed
        rw [k4]; exact Nat.le_refl _
    · cases h
    · cases h
  | onPersistEntries i t =>
    simp only [applyOp] at h
    obtain ⟨raft, hx, hr⟩ := CV.okRes_ok h
    rw [hr]
    exact (onPersistEntries_pw hx h0).pr
  | persistSnap =>
    simp only [applyOp] at h
    unfold Node.persistSnap at h
    simp only [] at h
    rw [hsn'] at h
    simp only [] at h
    cases h
    exact h0.pr
  | commitApply k =>
    simp only [applyOp, Node.commitApply] at h
    split at h
    · rename_i r2 hb
      rw [Res.bind_eq_ok_iff] at hb
      obtain ⟨r1, h1, h2⟩ := hb
      have g1 : PWb ({ st.raft with nextRand := rnd } : Raft) r1 := by
        have hred : ∀ ents, PWb ({ st.raft with nextRand := rnd } : Raft)
            (({ st.raft with nextRand := rnd } : Raft).reduceUncommittedSize ents) := by
          intro ents
          unfold Raft.reduceUncommittedSize
          split
          · exact h0
          · exact PWb.mk' h0
        split at h1
        · split at h1
          · cases h1; exact hred _
          · cases h1; exact h0
          · cases h1
        · cases h1; exact h0
      have g2 : PWb ({ st.raft with nextRand := rnd } : Raft) r2 := commitApplyInternal_pw h2 g1
      cases h
      split
      · exact PRb.of_same g2.pr rfl rfl rfl rfl (Nat.le_refl _) (Nat.le_refl _)
      · exact g2.pr
    · cases h
    · cases h
  | compact k => exact absurd rfl (hc k)
  | drain => exact absurd rfl hop.1
  | triggerSnap =>
    simp only [applyOp] at h
    cases h
    exact PRb.of_same h0.pr rfl rfl rfl rfl (Nat.le_refl _) (Nat.le_refl _)
  | triggerLog b =>
    simp only [applyOp] at h
    cases h
    exact PRb.of_same h0.pr rfl rfl rfl rfl (Nat.le_refl _) (Nat.le_refl _)
  | setPriority p =>
    simp only [applyOp] at h
    cases h
    exact PRb.of_same h0.pr rfl rfl rfl rfl (Nat.le_refl _) (Nat.le_refl _)
  | setBatchAppend b =>
    simp only [applyOp] at h
    cases h
    exact PRb.of_same h0.pr rfl rfl rfl rfl (Nat.le_refl _) (Nat.le_refl _)
  | skipBcastCommit b =>
    simp only [applyOp] at h
    cases h
    exact PRb.of_same h0.pr rfl rfl rfl rfl (Nat.le_refl _) (Nat.le_refl _)
  | setCheckQuorum b =>
    simp only [applyOp] at h
    cases h
    exact PRb.of_same h0.pr rfl rfl rfl rfl (Nat.le_refl _) (Nat.le_refl _)
  | adjustMaxInflight id cap =>
    simp only [applyOp] at h
    obtain ⟨raft, hx, hr⟩ := CV.okRes_ok h
    rw [hr]
    exact (adjustMaxInflightMsgs_pw hx h0).pr
  | maybeFreeInflightBuffers =>
    simp only [applyOp] at h
    cases h
    exact (maybeFreeInflightBuffers_pw h0).pr
  | enableGroupCommit b =>
    simp only [applyOp] at h
    obtain ⟨raft, hx, hr⟩ := CV.okRes_ok h
    rw [hr]
    exact (enableGroupCommit_pw hx h0).pr
  | assignCommitGroups v =>
    simp only [applyOp] at h
    obtain ⟨raft, hx, hr⟩ := CV.okRes_ok h
    rw [hr]
    exact (assignCommitGroups_pw hx h0).pr
  | clearCommitGroup =>
    simp only [applyOp] at h
    cases h
    exact (clearCommitGroup_pw h0).pr
  | checkGroupCommitConsistent =>
    simp only [applyOp] at h
    split at h
    · cases h; exact h0.pr
    · cases h; exact h0.pr
    · cases h
    · cases h
  | setMaxApplyUnpersistedLogLimit x =>
    simp only [applyOp] at h
    cases h
    exact PRb.of_same h0.pr rfl rfl rfl rfl (Nat.le_refl _) (Nat.le_refl _)
  | setMaxCommittedSizePerReady x =>
    simp only [applyOp] at h
    cases h
    exact PRb.of_same h0.pr rfl rfl rfl rfl (Nat.le_refl _) (Nat.le_refl _)
  | onEntriesFetched to term aggr =>
    rcases CV.onEntriesFetched_ok h with h | ⟨-, hs, -, raft, hx, h⟩
    · cases h; exact h0.pr
    · cases h
      rcases hx with hx | hx
      · exact (sendAppendAggressively_lw hx ⟨h0, hs⟩).1.pr
      · exact (sendAppend_lw hx ⟨h0, hs⟩).1.pr

end F
end PB
end Raft
end RaftModel
