import RaftModel.RawNode
import RaftProofs.RaftLog

/-!
Helper lemmas for C07: decomposition of `RawNodeM.ready` / `genLightReady` / `commitReady`,
the record queue, and the facts about `RaftLog.slice` that the hand-out theorems use.
-/
namespace RaftModel
namespace RawNodeM

/-! ### `ready` in pieces -/

def readyTv (n : RawNodeM) : Bool :=
  decide (n.hardState.vote ≠ n.prevHs.vote ∨ n.hardState.term ≠ n.prevHs.term)

def readyHsChanged (n : RawNodeM) : Bool := decide (n.hardState ≠ n.prevHs)

def readyUhn (n : RawNodeM) : Nat :=
  if n.readyHsChanged && n.readyTv then n.maxNumber + 1 else n.unpersistedHsNumber

def readyRecord (n : RawNodeM) : ReadyRecord :=
  { number := n.maxNumber + 1,
    snapshot := n.log.unstable.snapshot.map (fun sn => (sn.metadata.index, sn.metadata.term)),
    lastEntry := n.log.unstable.entries.getLast?.map (fun e => (e.index, e.term)) }

def readyN1 (n : RawNodeM) (csi : Nat) : RawNodeM :=
  { n with maxNumber := n.maxNumber + 1, unpersistedHsNumber := n.readyUhn, readStates := [],
           commitSinceIndex := csi }

def readyRd (n : RawNodeM) (light : LightReady) : Ready :=
  { number := n.maxNumber + 1,
    ss := if n.softState ≠ n.prevSs then some n.softState else none,
    hs := if n.readyHsChanged then some n.hardState else none,
    readStates := n.readStates,
    entries := n.log.unstable.entries,
    snapshot := n.log.unstable.snapshot,
    isPersistedMsg := decide (n.role ≠ ROLE_LEADER) || decide (n.readyUhn ≠ 0),
    light := light,
    mustSync := (n.readyHsChanged && n.readyTv) || n.log.unstable.snapshot.isSome ||
      n.log.unstable.entries.getLast?.isSome }

theorem ready_eq (n : RawNodeM) : n.ready =
    (match n.drainRecords with
     | .ok recs =>
       (match n.readySnapshot with
        | .ok csi =>
          (match (n.readyN1 csi).genLightReady with
           | .ok (n2, light) =>
             .ok ({ n2 with records := recs ++ [n.readyRecord] }, n.readyRd light)
           | .err e => .err e
           | .panic s => .panic s)
        | .err e => .err e
        | .panic s => .panic s)
     | .err e => .err e
     | .panic s => .panic s) := rfl

theorem ready_ok {n n' : RawNodeM} {rd : Ready} (h : n.ready = .ok (n', rd)) :
    ∃ recs csi n2 light, n.drainRecords = .ok recs ∧ n.readySnapshot = .ok csi ∧
      (n.readyN1 csi).genLightReady = .ok (n2, light) ∧
      n' = { n2 with records := recs ++ [n.readyRecord] } ∧ rd = n.readyRd light := by
  rw [ready_eq] at h
  cases hd : n.drainRecords with
  | ok recs =>
    cases hs : n.readySnapshot with
    | ok csi =>
      cases hg : (n.readyN1 csi).genLightReady with
      | ok p =>
        obtain ⟨n2, light⟩ := p
        simp only [hd, hs, hg] at h
        injection h with h
        injection h with h1 h2
        exact ⟨recs, csi, n2, light, rfl, rfl, hg, h1.symm, h2.symm⟩
      | err e => simp only [hd, hs, hg] at h; cases h
      | panic s => simp only [hd, hs, hg] at h; cases h
    | err e => simp only [hd, hs] at h; cases h
    | panic s => simp only [hd, hs] at h; cases h
  | err e => simp only [hd] at h; cases h
  | panic s => simp only [hd] at h; cases h

/-- new `commit_since_index` after the committed entries `ces` were taken -/
def csiAfter (csi : Nat) (ces : List Entry) : Nat :=
  match ces.getLast? with
  | some e => e.index
  | none => csi

theorem genLightReady_ok {n n' : RawNodeM} {l : LightReady} (h : n.genLightReady = .ok (n', l)) :
    ∃ o, n.log.nextEntriesSince n.commitSinceIndex (some n.maxCommittedSizePerReady) = .ok o ∧
      l = { commitIndex := none, committedEntries := o.getD [], messages := n.msgs } ∧
      n' = { n with commitSinceIndex := csiAfter n.commitSinceIndex (o.getD []), msgs := [] } ∧
      (∀ e, (o.getD []).getLast? = some e → n.commitSinceIndex < e.index) := by
  unfold genLightReady at h
  cases ho : n.log.nextEntriesSince n.commitSinceIndex (some n.maxCommittedSizePerReady) with
  | ok o =>
    simp only [ho] at h
    cases hl : (o.getD []).getLast? with
    | none =>
      simp only [hl] at h
      injection h with h
      injection h with h1 h2
      refine ⟨o, rfl, h2.symm, ?_, ?_⟩
      · rw [← h1]; simp [csiAfter, hl]
      · intro e he; rw [hl] at he; cases he
    | some e =>
      simp only [hl] at h
      by_cases hlt : n.commitSinceIndex < e.index
      · simp only [hlt, if_true] at h
        injection h with h
        injection h with h1 h2
        refine ⟨o, rfl, h2.symm, ?_, ?_⟩
        · rw [← h1]; simp [csiAfter, hl]
        · intro e' he'; rw [hl] at he'; cases he'; exact hlt
      · simp only [hlt, if_false] at h; cases h
  | err e => simp only [ho] at h; cases h
  | panic s => simp only [ho] at h; cases h

/-- `has_next_entries_since` and `next_entries_since` test the same condition -/
theorem hasNext_false_next_none {l : RaftLog} {i : Nat} (mx : Option Nat)
    (h : l.hasNextEntriesSince i = .ok false) : l.nextEntriesSince i mx = .ok none := by
  unfold RaftLog.hasNextEntriesSince at h
  unfold RaftLog.nextEntriesSince
  by_cases hu : U64_MAX ≤ i
  · simp only [hu, if_true] at h; cases h
  · simp only [hu, if_false, RaftLog.appliedIndexUpperBound] at h ⊢
    injection h with h
    have := of_decide_eq_false h
    simp only [this, if_false]

theorem hasNext_true_next_some {l : RaftLog} {i : Nat} (mx : Option Nat)
    (h : l.hasNextEntriesSince i = .ok true) :
    l.nextEntriesSince i mx =
      (let ub := min l.committed (min U64_MAX (l.persisted + l.maxApplyUnpersistedLogLimit))
       match l.slice (max (i + 1) l.firstIndex) (ub + 1) mx false with
       | .ok v => .ok (some v)
       | .err _ => .panic "raft_log.next_entries_since.slice_error"
       | .panic s => .panic s) := by
  unfold RaftLog.hasNextEntriesSince at h
  unfold RaftLog.nextEntriesSince
  by_cases hu : U64_MAX ≤ i
  · simp only [hu, if_true] at h; cases h
  · simp only [hu, if_false, RaftLog.appliedIndexUpperBound] at h ⊢
    injection h with h
    have := of_decide_eq_true h
    simp only [this, if_true]
    rfl

/-! ### the record queue -/

/-- one iteration of the `while` loop of `on_persist_ready` -/
def recStep (acc : Nat × Nat × Nat) (r : ReadyRecord) : Nat × Nat × Nat :=
  let acc1 : Nat × Nat × Nat := match r.snapshot with
    | some (i, _) => (0, 0, i)
    | none => acc
  match r.lastEntry with
  | some (i, t) => (i, t, acc1.2.2)
  | none => acc1

/-- what a batch of popped records asks to persist: `(index, term, snap_index)` -/
def persistTarget (popped : List ReadyRecord) (acc : Nat × Nat × Nat) : Nat × Nat × Nat :=
  popped.foldl recStep acc

theorem popRecords_eq (number : Nat) (recs : List ReadyRecord) (acc : Nat × Nat × Nat) :
    popRecords number recs acc =
      (recs.dropWhile (fun r => decide (r.number ≤ number)),
       persistTarget (recs.takeWhile (fun r => decide (r.number ≤ number))) acc) := by
  induction recs generalizing acc with
  | nil => rfl
  | cons r rs ih =>
    obtain ⟨index, term, snapIndex⟩ := acc
    unfold popRecords
    by_cases hlt : number < r.number
    · have hn : ¬ r.number ≤ number := by omega
      simp [hlt, hn, List.takeWhile_cons, persistTarget]
    · have hn : r.number ≤ number := by omega
      simp only [hlt, if_false, List.dropWhile_cons, List.takeWhile_cons, hn, decide_true,
        if_true, persistTarget, List.foldl_cons]
      rw [ih]
      simp only [persistTarget]
      congr 2
      unfold recStep
      cases r.snapshot with
      | none => cases r.lastEntry with
        | none => rfl
        | some p => rfl
      | some q => cases r.lastEntry with
        | none => rfl
        | some p => rfl

/-- the queue invariant: numbers strictly increasing and bounded by `max_number` -/
def RecOk (n : RawNodeM) : Prop :=
  (n.records.map (·.number)).Pairwise (· < ·) ∧ ∀ r ∈ n.records, r.number ≤ n.maxNumber

theorem pairwise_dropWhile {l : List ReadyRecord} (p : ReadyRecord → Bool)
    (h : (l.map (·.number)).Pairwise (· < ·)) :
    ((l.dropWhile p).map (·.number)).Pairwise (· < ·) := by
  induction l with
  | nil => simpa using h
  | cons a t ih =>
    simp only [List.map_cons, List.pairwise_cons] at h
    rw [List.dropWhile_cons]
    split
    · exact ih h.2
    · simp only [List.map_cons, List.pairwise_cons]; exact h

theorem mem_dropWhile_of_sorted {l : List ReadyRecord} (number : Nat)
    (h : (l.map (·.number)).Pairwise (· < ·)) (r : ReadyRecord) :
    r ∈ l.dropWhile (fun r => decide (r.number ≤ number)) ↔ r ∈ l ∧ number < r.number := by
  induction l with
  | nil => simp
  | cons a t ih =>
    simp only [List.map_cons, List.pairwise_cons] at h
    rw [List.dropWhile_cons]
    by_cases ha : a.number ≤ number
    · simp only [ha, decide_true, if_true]
      rw [ih h.2]
      constructor
      · rintro ⟨h1, h2⟩; exact ⟨List.mem_cons_of_mem _ h1, h2⟩
      · rintro ⟨h1, h2⟩
        rcases List.mem_cons.1 h1 with rfl | h1
        · omega
        · exact ⟨h1, h2⟩
    · simp only [ha, decide_false, Bool.false_eq_true, if_false]
      constructor
      · intro hm
        refine ⟨hm, ?_⟩
        rcases List.mem_cons.1 hm with rfl | hm
        · omega
        · have := h.1 r.number (List.mem_map.2 ⟨r, hm, rfl⟩); omega
      · rintro ⟨h1, _⟩; exact h1

end RawNodeM
end RaftModel

namespace RaftModel
namespace RawNodeM

/-! ### `commit_ready` right after `ready` -/

/-- `commit_ready` of a Ready whose record is the last one and was computed from the current
unstable part: never panics, clears the unstable part, touches nothing else of the log -/
theorem commitReady_spec (n : RawNodeM) (rd : Ready) (rec : ReadyRecord)
    (hlast : n.records.getLast? = some rec) (hnum : rec.number = rd.number)
    (hsnap : rec.snapshot =
      n.log.unstable.snapshot.map (fun sn => (sn.metadata.index, sn.metadata.term)))
    (hent : rec.lastEntry = n.log.unstable.entries.getLast?.map (fun e => (e.index, e.term))) :
    ∃ l2, n.commitReady rd = .ok { n with prevSs := rd.ss.getD n.prevSs,
                                          prevHs := rd.hs.getD n.prevHs, log := l2 } ∧
      l2.unstable.entries = [] ∧ l2.unstable.snapshot = none ∧ l2.store = n.log.store ∧
      l2.committed = n.log.committed ∧ l2.persisted = n.log.persisted ∧
      l2.applied = n.log.applied ∧
      l2.maxApplyUnpersistedLogLimit = n.log.maxApplyUnpersistedLogLimit ∧
      l2.unstable.offset = (match n.log.unstable.entries.getLast? with
        | some e => e.index + 1
        | none => n.log.unstable.offset) := by
  unfold commitReady
  simp only [hlast, hnum, ne_eq, not_true_eq_false, if_false, hsnap, hent]
  cases hs : n.log.unstable.snapshot with
  | none =>
    cases he : n.log.unstable.entries.getLast? with
    | none =>
      have hnil : n.log.unstable.entries = [] := by
        cases hh : n.log.unstable.entries with
        | nil => rfl
        | cons a t => rw [hh] at he; simp [List.getLast?_cons] at he
      simp only [Option.map_none]
      exact ⟨n.log, rfl, hnil, hs, rfl, rfl, rfl, rfl, rfl, rfl⟩
    | some e =>
      simp only [Option.map_none, Option.map_some, RaftLog.stableEntries,
        Unstable.stableEntries, hs, Option.isSome_none, Bool.false_eq_true, if_false, he,
        ne_eq, not_true_eq_false, or_self]
      exact ⟨_, rfl, rfl, rfl, rfl, rfl, rfl, rfl, rfl, rfl⟩
  | some sn =>
    cases he : n.log.unstable.entries.getLast? with
    | none =>
      have hnil : n.log.unstable.entries = [] := by
        cases hh : n.log.unstable.entries with
        | nil => rfl
        | cons a t => rw [hh] at he; simp [List.getLast?_cons] at he
      simp only [Option.map_none, Option.map_some, RaftLog.stableSnap, Unstable.stableSnap, hs,
        ne_eq, not_true_eq_false, if_false]
      exact ⟨_, rfl, hnil, rfl, rfl, rfl, rfl, rfl, rfl, rfl⟩
    | some e =>
      simp only [Option.map_some, RaftLog.stableSnap, Unstable.stableSnap, hs,
        ne_eq, not_true_eq_false, if_false, RaftLog.stableEntries, Unstable.stableEntries,
        Option.isSome_none, Bool.false_eq_true, he, or_self]
      exact ⟨_, rfl, rfl, rfl, rfl, rfl, rfl, rfl, rfl, rfl⟩

theorem getLast?_append_singleton {α : Type} (l : List α) (a : α) :
    (l ++ [a]).getLast? = some a := by
  simp

/-- the state right after `ready`: log, term, vote, role untouched; bookkeeping as computed -/
theorem ready_state {n n' : RawNodeM} {rd : Ready} (h : n.ready = .ok (n', rd)) :
    n'.log = n.log ∧ n'.term = n.term ∧ n'.vote = n.vote ∧ n'.role = n.role ∧
    n'.leaderId = n.leaderId ∧ n'.prevHs = n.prevHs ∧ n'.prevSs = n.prevSs ∧
    n'.maxNumber = n.maxNumber + 1 ∧ rd.number = n.maxNumber + 1 ∧
    n'.records.getLast? = some n.readyRecord ∧ n'.msgs = [] ∧ n'.readStates = [] ∧
    n'.maxCommittedSizePerReady = n.maxCommittedSizePerReady := by
  obtain ⟨recs, csi, n2, light, _, _, hg, hn', hrd⟩ := ready_ok h
  obtain ⟨o, _, _, hn2, _⟩ := genLightReady_ok hg
  subst hn' hrd hn2
  refine ⟨rfl, rfl, rfl, rfl, rfl, rfl, rfl, rfl, rfl, ?_, rfl, rfl, rfl⟩
  exact getLast?_append_singleton _ _

/-- the application's storage write touches only the storage -/
theorem storageWrite_ok {n n' : RawNodeM} {rd : Ready} (h : n.storageWrite rd = .ok n') :
    ∃ st, n' = { n with log := { n.log with store := st } } := by
  unfold storageWrite at h
  simp only [] at h
  repeat' (split at h)
  all_goals first | (injection h with h; exact ⟨_, h.symm⟩) | cases h

end RawNodeM
end RaftModel

namespace RaftModel
namespace RawNodeM

/-! ### fields of the Ready -/

theorem readyTv_iff (n : RawNodeM) :
    n.readyTv = true ↔ (n.vote ≠ n.prevHs.vote ∨ n.term ≠ n.prevHs.term) := by
  unfold readyTv hardState; exact decide_eq_true_iff

theorem readyHsChanged_iff (n : RawNodeM) : n.readyHsChanged = true ↔ n.hardState ≠ n.prevHs := by
  unfold readyHsChanged; exact decide_eq_true_iff

theorem readyTv_changed (n : RawNodeM) (h : n.readyTv = true) : n.readyHsChanged = true := by
  rw [readyHsChanged_iff]
  rw [readyTv_iff] at h
  intro hc
  rw [← hc] at h
  simp [hardState] at h

theorem readyRd_hs_changed (n : RawNodeM) (light : LightReady) (h : n.hardState ≠ n.prevHs) :
    (n.readyRd light).hs = some n.hardState := by
  have := (readyHsChanged_iff n).2 h
  show (if n.readyHsChanged then some n.hardState else none) = _
  rw [this]; rfl

theorem readyRd_hs_same (n : RawNodeM) (light : LightReady) (h : n.hardState = n.prevHs) :
    (n.readyRd light).hs = none := by
  have : n.readyHsChanged = false := by
    cases hb : n.readyHsChanged with
    | false => rfl
    | true => exact absurd h ((readyHsChanged_iff n).1 hb)
  show (if n.readyHsChanged then some n.hardState else none) = _
  rw [this]; rfl

theorem readyRd_hs_getD (n : RawNodeM) (light : LightReady) :
    (n.readyRd light).hs.getD n.prevHs = n.hardState := by
  by_cases h : n.hardState = n.prevHs
  · rw [readyRd_hs_same n light h]; exact h.symm
  · rw [readyRd_hs_changed n light h]; rfl

theorem readyRd_ss_getD (n : RawNodeM) (light : LightReady) :
    (n.readyRd light).ss.getD n.prevSs = n.softState := by
  show (if n.softState ≠ n.prevSs then some n.softState else none).getD n.prevSs = _
  by_cases h : n.softState = n.prevSs
  · rw [if_neg (by simpa using h)]; exact h.symm
  · rw [if_pos h]; rfl

theorem readyRd_ss_none_iff (n : RawNodeM) (light : LightReady) :
    (n.readyRd light).ss = none ↔ n.softState = n.prevSs := by
  show (if n.softState ≠ n.prevSs then some n.softState else none) = none ↔ _
  by_cases h : n.softState = n.prevSs
  · rw [if_neg (by simpa using h)]; simp [h]
  · rw [if_pos h]; simp [h]

theorem readyRd_hs_none_iff (n : RawNodeM) (light : LightReady) :
    (n.readyRd light).hs = none ↔ n.hardState = n.prevHs := by
  by_cases h : n.hardState = n.prevHs
  · rw [readyRd_hs_same n light h]; simp [h]
  · rw [readyRd_hs_changed n light h]; simp [h]

theorem getLast?_isSome_iff {α : Type} (l : List α) : l.getLast?.isSome = true ↔ l ≠ [] := by
  cases l with
  | nil => simp
  | cons a t => simp [List.getLast?_cons]

theorem readyRd_mustSync (n : RawNodeM) (light : LightReady) :
    (n.readyRd light).mustSync = true ↔
      (n.log.unstable.entries ≠ [] ∨ n.log.unstable.snapshot.isSome = true ∨
        n.term ≠ n.prevHs.term ∨ n.vote ≠ n.prevHs.vote) := by
  show ((n.readyHsChanged && n.readyTv) || n.log.unstable.snapshot.isSome ||
      n.log.unstable.entries.getLast?.isSome) = true ↔ _
  rw [Bool.or_eq_true, Bool.or_eq_true, Bool.and_eq_true, getLast?_isSome_iff, readyTv_iff]
  constructor
  · rintro ((⟨_, h2 | h2⟩ | h2) | h2)
    · right; right; right; exact h2
    · right; right; left; exact h2
    · right; left; exact h2
    · left; exact h2
  · rintro (h1 | h1 | h1 | h1)
    · right; exact h1
    · left; right; exact h1
    · left; left
      exact ⟨readyTv_changed n ((readyTv_iff n).2 (.inr h1)), .inr h1⟩
    · left; left
      exact ⟨readyTv_changed n ((readyTv_iff n).2 (.inl h1)), .inl h1⟩

end RawNodeM
end RaftModel

/-! ### `slice` returns a non-empty prefix of the logical log -/

namespace RaftModel

theorem limitCount_pos (m : Nat) (e : Entry) (es : List Entry) : 1 ≤ limitCount m 0 (e :: es) := by
  unfold limitCount; simp

theorem limitSize_prefix (xs : List Entry) (mx : Option Nat) :
    ∃ k, limitSize xs mx = xs.take k ∧ (xs ≠ [] → 1 ≤ k) := by
  unfold limitSize
  have hfull : ∃ k, xs = xs.take k ∧ (xs ≠ [] → 1 ≤ k) :=
    ⟨xs.length, by simp, fun hne => by
      cases xs with
      | nil => exact absurd rfl hne
      | cons a t => simp⟩
  by_cases h1 : xs.length ≤ 1
  · rw [if_pos h1]; exact hfull
  · rw [if_neg h1]
    cases mx with
    | none => exact hfull
    | some m =>
      simp only []
      by_cases hm : m = NO_LIMIT
      · rw [if_pos hm]; exact hfull
      · rw [if_neg hm]
        refine ⟨_, rfl, fun hne => ?_⟩
        cases xs with
        | nil => exact absurd rfl hne
        | cons a t => exact limitCount_pos m a t

namespace RaftLog

/-- `es` are the entries of the logical log at `lo, lo+1, …` -/
def Matches (l : RaftLog) (lo : Nat) (es : List Entry) : Prop :=
  ∀ k e, es[k]? = some e → l.abs.entryAt (lo + k) = some e

theorem Matches.take {l : RaftLog} {lo : Nat} {es : List Entry} (h : l.Matches lo es) (k : Nat) :
    l.Matches lo (es.take k) := by
  intro j e hj
  rw [List.getElem?_take] at hj
  split at hj
  · exact h j e hj
  · cases hj

theorem Matches.append {l : RaftLog} {lo : Nat} {a b : List Entry} (ha : l.Matches lo a)
    (hb : l.Matches (lo + a.length) b) : l.Matches lo (a ++ b) := by
  intro j e hj
  rcases Nat.lt_or_ge j a.length with hlt | hge
  · rw [List.getElem?_append_left hlt] at hj; exact ha j e hj
  · rw [List.getElem?_append_right hge] at hj
    have := hb _ e hj
    rw [show lo + a.length + (j - a.length) = lo + j by omega] at this
    exact this

theorem Inv.entryAt_index {l : RaftLog} (h : l.Inv) {i : Nat} {e : Entry}
    (he : l.abs.entryAt i = some e) : e.index = i := by
  rcases Nat.lt_or_ge i l.unstable.offset with hlt | hge
  · cases hs : l.unstable.snapshot with
    | some sn =>
      have ho := h.unstWF.snap sn hs
      rw [abs_some hs] at he
      simp only [LLog.entryAt] at he
      rw [if_pos (by omega)] at he
      cases he
    | none =>
      have hp := h.storeWF.first_pos
      have hge : l.store.firstIndex ≤ i := by
        apply Classical.byContradiction
        intro hc
        rw [abs_none hs] at he
        simp only [LLog.entryAt] at he
        rw [if_pos (by omega)] at he
        cases he
      rw [h.entryAt_store hs hge hlt] at he
      have := h.storeWF.contig _ _ he
      omega
  · rw [h.entryAt_unstable hge] at he
    have := h.unstWF.contig _ _ he
    omega

theorem Inv.matches_store {l : RaftLog} (h : l.Inv) (hs : l.unstable.snapshot = none) {a b : Nat}
    (h1 : l.store.firstIndex ≤ a) (h2 : b ≤ l.unstable.offset) :
    l.Matches a ((l.store.entries.drop (a - l.store.firstIndex)).take (b - a)) := by
  intro k e hk
  rw [List.getElem?_take] at hk
  split at hk
  · rw [List.getElem?_drop] at hk
    rw [h.entryAt_store hs (by omega) (by omega)]
    rw [show a + k - l.store.firstIndex = a - l.store.firstIndex + k by omega]
    exact hk
  · cases hk

theorem Inv.matches_unstable {l : RaftLog} (h : l.Inv) {a n : Nat} (h1 : l.unstable.offset ≤ a) :
    l.Matches a ((l.unstable.entries.drop (a - l.unstable.offset)).take n) := by
  intro k e hk
  rw [List.getElem?_take] at hk
  split at hk
  · rw [List.getElem?_drop] at hk
    rw [h.entryAt_unstable (by omega)]
    rw [show a + k - l.unstable.offset = a - l.unstable.offset + k by omega]
    exact hk
  · cases hk

theorem Inv.mustCheck_ok {l : RaftLog} (h : l.Inv) {lo hi : Nat} (h1 : l.firstIndex ≤ lo)
    (h2 : lo < hi) (h3 : hi ≤ l.lastIndex + 1) : l.mustCheckOutOfBounds lo hi = .ok none := by
  unfold mustCheckOutOfBounds
  rw [if_neg (by omega), if_neg (by omega), if_neg (by omega), if_neg (by omega)]

theorem unstable_slice_ok {l : RaftLog} (h : l.Inv) {a hi : Nat} (h1 : l.unstable.offset ≤ a)
    (h2 : a ≤ hi) (h3 : hi ≤ l.lastIndex + 1) :
    l.unstable.slice a hi = .ok ((l.unstable.entries.drop (a - l.unstable.offset)).take (hi - a)) := by
  have hl := h.last_succ
  unfold Unstable.slice Unstable.mustCheckOutOfBounds
  rw [if_neg (by omega), if_neg (by omega)]

/-- **`slice` inside the log returns a non-empty prefix of the requested range** (context
`GenReady`: never asynchronous, so the storage's "temporarily unavailable" trigger is not
consulted) -/
theorem Inv.slicePrefix {l : RaftLog} (h : l.Inv) (lo hi : Nat) (mx : Option Nat)
    (h1 : l.firstIndex ≤ lo) (h2 : lo < hi) (h3 : hi ≤ l.lastIndex + 1) :
    ∃ es, l.slice lo hi mx false = .ok es ∧ es ≠ [] ∧ es.length ≤ hi - lo ∧
      ∀ k e, es[k]? = some e → l.abs.entryAt (lo + k) = some e ∧ e.index = lo + k := by
  -- it suffices to exhibit the result as a non-empty prefix of a list that matches the log
  suffices hx : ∃ xs, xs ≠ [] ∧ xs.length ≤ hi - lo ∧ l.Matches lo xs ∧
      ∃ k, 1 ≤ k ∧ l.slice lo hi mx false = .ok (xs.take k) by
    obtain ⟨xs, hne, hlen, hm, k, hk, hs⟩ := hx
    refine ⟨xs.take k, hs, ?_, ?_, ?_⟩
    · cases xs with
      | nil => exact absurd rfl hne
      | cons a t =>
        cases k with
        | zero => omega
        | succ k => simp
    · rw [List.length_take]; omega
    · intro j e hj
      have := (hm.take k) j e hj
      exact ⟨this, h.entryAt_index this⟩
  have hl := h.last_succ
  unfold slice
  rw [h.mustCheck_ok h1 h2 h3]
  simp only []
  rw [if_neg (by omega)]
  unfold sliceStore
  by_cases hlo : lo < l.unstable.offset
  · -- the range starts in the storage
    have hs : l.unstable.snapshot = none := by
      cases hs : l.unstable.snapshot with
      | none => rfl
      | some sn =>
        have := h.unstWF.snap sn hs
        rw [firstIndex_some hs] at h1
        omega
    rw [firstIndex_none hs] at h1
    have hol := h.off_le_last hs
    have hsl := h.storeWF.last_succ
    rw [if_pos hlo]
    simp only []
    have huh : lo < min hi l.unstable.offset := by omega
    rw [h.storeWF.entriesQ_in mx false h1 huh (by omega) (by simp)]
    simp only []
    -- the storage part
    have hxlen : ((l.store.entries.drop (lo - l.store.firstIndex)).take
        (min hi l.unstable.offset - lo)).length = min hi l.unstable.offset - lo := by
      simp only [List.length_take, List.length_drop]; omega
    have hxm : l.Matches lo ((l.store.entries.drop (lo - l.store.firstIndex)).take
        (min hi l.unstable.offset - lo)) := h.matches_store hs h1 (Nat.min_le_right _ _)
    generalize (l.store.entries.drop (lo - l.store.firstIndex)).take
        (min hi l.unstable.offset - lo) = xs at hxlen hxm ⊢
    have hxne : xs ≠ [] := by
      intro hnil; rw [hnil] at hxlen; simp at hxlen; omega
    obtain ⟨k, hk, hk1⟩ := limitSize_prefix xs mx
    have hk1 := hk1 hxne
    by_cases hearly : (limitSize xs mx).length < min hi l.unstable.offset - lo
    · simp only [hearly, decide_true]
      exact ⟨xs, hxne, by omega, hxm, k, hk1, by rw [hk]⟩
    · simp only [hearly, decide_false]
      -- the storage part came back complete
      have hfull : limitSize xs mx = xs := by
        rw [hk] at hearly ⊢
        rw [List.length_take] at hearly
        exact List.take_of_length_le (by omega)
      rw [hfull]
      by_cases hoh : l.unstable.offset < hi
      · rw [if_pos hoh]
        have hmax : max lo l.unstable.offset = l.unstable.offset := by omega
        rw [hmax, unstable_slice_ok h (Nat.le_refl _) (by omega) h3]
        simp only [Nat.sub_self, List.drop_zero]
        have hum : l.Matches (lo + xs.length)
            (l.unstable.entries.take (hi - l.unstable.offset)) := by
          have := h.matches_unstable (a := l.unstable.offset) (n := hi - l.unstable.offset)
            (Nat.le_refl _)
          simp only [Nat.sub_self, List.drop_zero] at this
          rw [show lo + xs.length = l.unstable.offset by omega]
          exact this
        obtain ⟨k2, hk2, hk21⟩ := limitSize_prefix (xs ++ l.unstable.entries.take (hi - l.unstable.offset)) mx
        refine ⟨xs ++ l.unstable.entries.take (hi - l.unstable.offset), by simp [hxne], ?_,
          hxm.append hum, k2, hk21 (by simp [hxne]), by rw [hk2]⟩
        rw [List.length_append, List.length_take]; omega
      · rw [if_neg hoh]
        exact ⟨xs, hxne, by omega, hxm, k, hk1, by rw [hk]⟩
  · -- the range lies in the unstable part
    rw [if_neg hlo]
    simp only []
    have hoh : l.unstable.offset < hi := by omega
    rw [if_pos hoh]
    have hmax : max lo l.unstable.offset = lo := by omega
    rw [hmax, unstable_slice_ok h (by omega) (by omega) h3]
    simp only [List.nil_append]
    have hum := h.matches_unstable (a := lo) (n := hi - lo) (by omega)
    generalize hxs : (l.unstable.entries.drop (lo - l.unstable.offset)).take (hi - lo) = xs at hum ⊢
    have hxlen : xs.length = hi - lo := by
      rw [← hxs, List.length_take, List.length_drop]; omega
    have hxne : xs ≠ [] := by
      intro hnil; rw [hnil] at hxlen; simp at hxlen; omega
    obtain ⟨k, hk, hk1⟩ := limitSize_prefix xs mx
    exact ⟨xs, hxne, by omega, hum, k, hk1 hxne, by rw [hk]⟩

end RaftLog
end RaftModel

/-! ### one hand-out -/

namespace RaftModel
namespace RawNodeM

/-- what the hand-out theorems need from `RaftLog::slice` (context `GenReady`, never async): inside
`[first_index, last_index]` it returns a non-empty prefix of the requested range of the logical
log.  Proved from the `RaftLog` invariant as `RaftLog.Inv.slicePrefix`. -/
def SlicePrefix (l : RaftLog) : Prop :=
  ∀ lo hi mx, l.firstIndex ≤ lo → lo < hi → hi ≤ l.lastIndex + 1 →
    ∃ es, l.slice lo hi mx false = .ok es ∧ es ≠ [] ∧ es.length ≤ hi - lo ∧
      ∀ k e, es[k]? = some e → l.abs.entryAt (lo + k) = some e ∧ e.index = lo + k

theorem hasNext_eq (l : RaftLog) (i : Nat) (hi : i < U64_MAX) :
    l.hasNextEntriesSince i = .ok (decide (max (i + 1) l.firstIndex <
      min l.committed (min U64_MAX (l.persisted + l.maxApplyUnpersistedLogLimit)) + 1)) := by
  unfold RaftLog.hasNextEntriesSince RaftLog.appliedIndexUpperBound
  rw [if_neg (by omega)]

theorem contig_getLast {es : List Entry} {s : Nat} (hc : ContigFrom s es) (e : Entry)
    (he : es.getLast? = some e) : e.index + 1 = s + es.length := hc.getLast he

/-- one hand-out (`gen_light_ready`) -/
theorem genLightReady_handout {n n' : RawNodeM} {light : LightReady} (hinv : n.log.Inv)
    (hsp : SlicePrefix n.log) (hcsi : n.log.firstIndex ≤ n.commitSinceIndex + 1)
    (h : n.genLightReady = .ok (n', light)) :
    ContigFrom (n.commitSinceIndex + 1) light.committedEntries ∧
    (∀ k e, light.committedEntries[k]? = some e →
      n.log.abs.entryAt (n.commitSinceIndex + 1 + k) = some e) ∧
    n'.commitSinceIndex = n.commitSinceIndex + light.committedEntries.length ∧
    (light.committedEntries ≠ [] →
      n'.commitSinceIndex ≤ n.log.committed ∧
      n'.commitSinceIndex ≤ n.log.persisted + n.log.maxApplyUnpersistedLogLimit) ∧
    (light.committedEntries ≠ [] ↔ n.log.hasNextEntriesSince n.commitSinceIndex = .ok true) := by
  obtain ⟨o, ho, hl, hn', _⟩ := genLightReady_ok h
  have hu : n.commitSinceIndex < U64_MAX := by
    apply Classical.byContradiction
    intro hc
    unfold RaftLog.nextEntriesSince at ho
    rw [if_pos (by omega)] at ho
    cases ho
  have hhn := hasNext_eq n.log n.commitSinceIndex hu
  have hmax : max (n.commitSinceIndex + 1) n.log.firstIndex = n.commitSinceIndex + 1 := by omega
  by_cases hb : max (n.commitSinceIndex + 1) n.log.firstIndex <
      min n.log.committed (min U64_MAX (n.log.persisted + n.log.maxApplyUnpersistedLogLimit)) + 1
  · have htrue : n.log.hasNextEntriesSince n.commitSinceIndex = .ok true := by
      rw [hhn]; simp [hb]
    rw [hasNext_true_next_some _ htrue] at ho
    simp only [hmax] at ho hb
    have hcl := hinv.committed_le_last
    obtain ⟨es, hs, hne, hlen, hm⟩ := hsp (n.commitSinceIndex + 1)
      (min n.log.committed (min U64_MAX (n.log.persisted + n.log.maxApplyUnpersistedLogLimit)) + 1)
      (some n.maxCommittedSizePerReady) hcsi hb (by omega)
    rw [hs] at ho
    injection ho with ho
    subst ho
    subst hl hn'
    simp only [Option.getD_some]
    have hc : ContigFrom (n.commitSinceIndex + 1) es := fun k e hk => (hm k e hk).2
    have hcsi' : csiAfter n.commitSinceIndex es = n.commitSinceIndex + es.length := by
      unfold csiAfter
      cases hl : es.getLast? with
      | none =>
        cases es with
        | nil => exact absurd rfl hne
        | cons a t => simp [List.getLast?_cons] at hl
      | some e => have := hc.getLast hl; simp only; omega
    refine ⟨hc, fun k e hk => (hm k e hk).1, hcsi', fun _ => ?_, ?_⟩
    · simp only [hcsi']; omega
    · exact ⟨fun _ => htrue, fun _ => hne⟩
  · have hfalse : n.log.hasNextEntriesSince n.commitSinceIndex = .ok false := by
      rw [hhn]; simp [hb]
    rw [hasNext_false_next_none _ hfalse] at ho
    injection ho with ho
    subst ho
    subst hl hn'
    simp only [Option.getD_none]
    refine ⟨fun k e hk => by simp at hk, fun k e hk => by simp at hk, by simp [csiAfter],
      fun hne => absurd rfl hne, ?_⟩
    rw [hfalse]
    simp

end RawNodeM
end RaftModel

namespace RaftModel
namespace RawNodeM

theorem slicePrefix_of_inv {l : RaftLog} (h : l.Inv) : SlicePrefix l :=
  fun lo hi mx h1 h2 h3 => h.slicePrefix lo hi mx h1 h2 h3

/-- committed entries are handed out exactly when `has_next_entries_since` says so (no assumption
on `commit_since_index`) -/
theorem genLightReady_nonempty_iff {n n' : RawNodeM} {light : LightReady} (hinv : n.log.Inv)
    (h : n.genLightReady = .ok (n', light)) :
    light.committedEntries ≠ [] ↔ n.log.hasNextEntriesSince n.commitSinceIndex = .ok true := by
  obtain ⟨o, ho, hl, hn', _⟩ := genLightReady_ok h
  have hu : n.commitSinceIndex < U64_MAX := by
    apply Classical.byContradiction
    intro hc
    unfold RaftLog.nextEntriesSince at ho
    rw [if_pos (by omega)] at ho
    cases ho
  have hhn := hasNext_eq n.log n.commitSinceIndex hu
  by_cases hb : max (n.commitSinceIndex + 1) n.log.firstIndex <
      min n.log.committed (min U64_MAX (n.log.persisted + n.log.maxApplyUnpersistedLogLimit)) + 1
  · have htrue : n.log.hasNextEntriesSince n.commitSinceIndex = .ok true := by
      rw [hhn]; simp [hb]
    rw [hasNext_true_next_some _ htrue] at ho
    have hcl := hinv.committed_le_last
    obtain ⟨es, hs, hne, _, _⟩ := hinv.slicePrefix (max (n.commitSinceIndex + 1) n.log.firstIndex)
      (min n.log.committed (min U64_MAX (n.log.persisted + n.log.maxApplyUnpersistedLogLimit)) + 1)
      (some n.maxCommittedSizePerReady) (by omega) hb (by omega)
    simp only [] at ho
    rw [hs] at ho
    injection ho with ho
    subst ho hl
    simp only [Option.getD_some]
    exact ⟨fun _ => htrue, fun _ => hne⟩
  · have hfalse : n.log.hasNextEntriesSince n.commitSinceIndex = .ok false := by
      rw [hhn]; simp [hb]
    rw [hasNext_false_next_none _ hfalse] at ho
    injection ho with ho
    subst ho hl
    rw [hfalse]
    simp

/-- what `on_persist_ready` & co. never touch -/
def Frame (n n' : RawNodeM) : Prop :=
  n'.records = n.records ∧ n'.maxNumber = n.maxNumber ∧ n'.commitSinceIndex = n.commitSinceIndex

theorem onPersistSnap_frame {n n' : RawNodeM} {i : Nat} (h : n.onPersistSnap i = .ok n') :
    Frame n n' := by
  unfold onPersistSnap at h
  split at h
  · injection h with h; subst h; exact ⟨rfl, rfl, rfl⟩
  · cases h
  · cases h

theorem onPersistEntries_frame {n n' : RawNodeM} {i t : Nat} {eff : Effect}
    (h : n.onPersistEntries i t eff = .ok n') : Frame n n' := by
  unfold onPersistEntries at h
  split at h
  · split at h
    · split at h
      · injection h with h; subst h; exact ⟨rfl, rfl, rfl⟩
      · cases h
      · cases h
    · injection h with h; subst h; exact ⟨rfl, rfl, rfl⟩
  · cases h
  · cases h

/-- frame: `on_persist_ready` pops a prefix of the queue and otherwise touches only the log, the
message queue and `unpersisted_hs_number` -/
theorem onPersistReady_records {n n' : RawNodeM} {number : Nat} {eff : Effect}
    (h : n.onPersistReady number eff = .ok n') :
    n'.records = n.records.dropWhile (fun r => decide (r.number ≤ number)) ∧
    n'.maxNumber = n.maxNumber ∧ n'.commitSinceIndex = n.commitSinceIndex := by
  unfold onPersistReady at h
  rw [popRecords_eq] at h
  simp only [] at h
  generalize hn1 : ({ n with
      unpersistedHsNumber := if n.unpersistedHsNumber ≤ number then 0 else n.unpersistedHsNumber,
      records := n.records.dropWhile (fun r => decide (r.number ≤ number)) } : RawNodeM) = n1 at h
  have f1 : n1.records = n.records.dropWhile (fun r => decide (r.number ≤ number)) ∧
      n1.maxNumber = n.maxNumber ∧ n1.commitSinceIndex = n.commitSinceIndex := by
    rw [← hn1]; exact ⟨rfl, rfl, rfl⟩
  generalize persistTarget (n.records.takeWhile (fun r => decide (r.number ≤ number))) (0, 0, 0) = tgt at h
  obtain ⟨idx, tm, sidx⟩ := tgt
  simp only [] at h
  have step2 : ∀ n2 : RawNodeM, Frame n1 n2 →
      (if idx ≠ 0 then n2.onPersistEntries idx tm eff else Res.ok n2) = .ok n' →
      n'.records = n.records.dropWhile (fun r => decide (r.number ≤ number)) ∧
      n'.maxNumber = n.maxNumber ∧ n'.commitSinceIndex = n.commitSinceIndex := by
    intro n2 f2 h2
    by_cases hi : idx ≠ 0
    · rw [if_pos hi] at h2
      have f3 := onPersistEntries_frame h2
      exact ⟨by rw [f3.1, f2.1, f1.1], by rw [f3.2.1, f2.2.1, f1.2.1], by rw [f3.2.2, f2.2.2, f1.2.2]⟩
    · rw [if_neg hi] at h2
      injection h2 with h2; subst h2
      exact ⟨by rw [f2.1, f1.1], by rw [f2.2.1, f1.2.1], by rw [f2.2.2, f1.2.2]⟩
  by_cases hsn : sidx ≠ 0
  · rw [if_pos hsn] at h
    cases hp : n1.onPersistSnap sidx with
    | ok n2 => rw [hp] at h; exact step2 n2 (onPersistSnap_frame hp) h
    | err e => rw [hp] at h; cases h
    | panic s => rw [hp] at h; cases h
  · rw [if_neg hsn] at h
    exact step2 n1 ⟨rfl, rfl, rfl⟩ h

end RawNodeM
end RaftModel

namespace RaftModel
namespace RawNodeM

theorem genLightReady_csi_lt {n n' : RawNodeM} {light : LightReady}
    (h : n.genLightReady = .ok (n', light)) : n.commitSinceIndex < U64_MAX := by
  obtain ⟨o, ho, _, _, _⟩ := genLightReady_ok h
  apply Classical.byContradiction
  intro hc
  unfold RaftLog.nextEntriesSince at ho
  rw [if_pos (by omega)] at ho
  cases ho

end RawNodeM
end RaftModel
