import RaftProofs.ClusterSnap4D

/-!
(Copy of `ClusterCommit4E` for the relation `Raft.CS.PW` of `ClusterSnap4A`: no `QSnap` escape, the
`Snapshot` state allowed.)

Cluster-level commit safety, part 4E: `LW` through the leader-side handlers
(`handle_append_response` under the hypothesis that an accepted acknowledgement lies within the log,
`handle_heartbeat_response`, `handle_transfer_leader`, `handle_snapshot_status`, `handle_unreachable`)
and `step_leader`.
-/
namespace RaftModel
namespace Raft
namespace CS
open RaftProps.C13

theorem checkQuorumActive_lw {a r r' : Raft} {b : Bool} (h : r.checkQuorumActive = (r', b))
    (h0 : LW a r) : LW a r' := by
  unfold Raft.checkQuorumActive at h
  split at h
  rename_i prs b' hq
  cases h
  refine ⟨PW.prs h0.1 (fun hs => ?_), h0.2⟩
  unfold ProgressTracker.quorumRecentlyActive at hq
  simp only [Prod.mk.injEq] at hq
  rw [← hq.1]
  rcases h0.1.po hs with c | c
  · exact .inl c
  · right
    intro p hp
    simp only [List.mem_map] at hp
    obtain ⟨q, hq', rfl⟩ := hp
    split <;> exact (c q hq').congr rfl rfl rfl

theorem handleAppendResponseAccepted_lw {a r r' : Raft} {m : Message} {pr : Progress} {op : Bool}
    (h : r.handleAppendResponseAccepted m pr op = .ok r') (h0 : LW a r) (hp : PQ r pr) :
    LW a r' := by
  unfold Raft.handleAppendResponseAccepted at h
  rw [Res.bind_eq_ok_iff] at h
  obtain ⟨pr1, h1, h2⟩ := h
  have hp1 : PQ r pr1 := by
    rcases hp with c | c
    · exact .inl c
    · right
      split at h1
      · cases h1; exact c.becomeReplicate
      · rename_i hs
        cases h1
        split
        · rename_i hcu
          refine c.becomeProbe (fun _ => ?_)
          unfold Progress.isSnapshotCaughtUp at hcu
          simp only [Bool.and_eq_true, decide_eq_true_eq] at hcu
          exact Nat.le_trans hcu.2 c.1
        · exact c
      · split at h1
        · cases h1; exact c.congr rfl rfl rfl
        · cases h1
  have h3 : LW a { r with prs := r.prs.set m.frm pr1 } := h0.setPr hp1
  lws_auto h2 [maybeCommit_lw, bcastAppend_lw, sendAppend_lw, sendAppendAggressively_lw,
    sendTimeoutNow_lw]

theorem handleAppendResponse_lw {a r r' : Raft} {m : Message}
    (h : r.handleAppendResponse m = .ok r') (h0 : LW a r)
    (hB : m.reject = false → m.index ≤ r.raftLog.lastIndex) : LW a r' := by
  unfold Raft.handleAppendResponse at h
  rw [Res.bind_eq_ok_iff] at h
  obtain ⟨npi, _, h⟩ := h
  split at h
  · cases h; exact h0
  · rename_i pr hg
    have hp0 : PQ r pr := h0.getPr hg
    have hp2 : PQ r (({ pr with recentActive := true } : Progress).updateCommitted m.commit) :=
      hp0.imp (fun c => (c.congr (pr' := { pr with recentActive := true }) rfl rfl rfl).updateCommitted _)
    simp only [] at h
    split at h
    · -- rejected
      split at h
      · cases h
      · cases h
      · rename_i pr3 hd
        have hp3 : PQ r pr3 := hp2.imp (fun c => (c.maybeDecrTo hd).1)
        have hp4 : PQ r (if pr3.state = .replicate then pr3.becomeProbe else pr3) := by
          split
          · rename_i hrep
            exact hp3.imp (fun c => c.becomeProbe_ns (by rw [hrep]; intro hc; cases hc))
          · exact hp3
        exact sendAppend_lw h (h0.setPr hp4)
      · rename_i pr3 hd
        cases h
        exact h0.setPr (hp2.imp (fun c => (c.maybeDecrTo hd).1))
    · rename_i hrej
      have hrej' : m.reject = false := by simpa using hrej
      split at h
      · cases h
      · cases h
      · rename_i pr3 hu
        cases h
        exact h0.setPr (hp2.imp (fun c => (c.maybeUpdate (hB hrej') hu).1))
      · rename_i pr3 hu
        exact handleAppendResponseAccepted_lw h h0 (hp2.imp (fun c => (c.maybeUpdate (hB hrej') hu).1))

theorem PQ.send {r r' : Raft} {pr : Progress} {m : Message} (h : r.send m = .ok r')
    (hp : PQ r pr) : PQ r' pr := by
  rw [send_eq _ _ _ h]
  rcases hp with c | c
  · exact .inl (c.append_left _)
  · exact .inr (c.app _)

theorem handleHeartbeatResponse_lw {a r r' : Raft} {m : Message}
    (h : r.handleHeartbeatResponse m = .ok r') (h0 : LW a r) : LW a r' := by
  unfold Raft.handleHeartbeatResponse at h
  split at h
  · cases h; exact h0
  · rename_i pr hg
    have hp0 : PQ r pr := h0.getPr hg
    simp only [] at h
    rw [Res.bind_eq_ok_iff] at h
    obtain ⟨pr2, h1, h⟩ := h
    have hp2 : PQ r pr2 := by
      refine hp0.imp (fun c => ?_)
      have c1 : POk r.msgs r.raftLog.lastIndex
          (({ (pr.updateCommitted m.commit) with recentActive := true } : Progress).resume) :=
        (c.updateCommitted m.commit).congr rfl rfl rfl
      split at h1
      · split at h1
        · cases h1; exact c1.congr rfl rfl rfl
        · cases h1
      · cases h1; exact c1
    rw [Res.bind_eq_ok_iff] at h
    obtain ⟨r1, h2, h⟩ := h
    have g1 : LW a r1 := by
      split at h2
      · rw [Res.bind_eq_ok_iff] at h2
        obtain ⟨⟨r2, pr3⟩, h3, h4⟩ := h2
        cases h4
        obtain ⟨k1, k2⟩ := sendAppendPr_lw h3 h0 hp2
        exact k1.setPr k2
      · cases h2; exact h0.setPr hp2
    split at h
    · cases h; exact g1
    · have g2 : LW a { r1 with readOnly := (r1.readOnly.recvAck m.frm m.context).1 } := by
        refine ⟨g1.1.ro (fun hs p hp => ?_), g1.2⟩
        obtain ⟨q, hq, he⟩ := recvAck_index _ _ _ p hp
        rw [← he]; exact g1.1.rd hs q hq
      split at h
      · cases h; exact g2
      · split at h
        · rw [Res.bind_eq_ok_iff] at h
          obtain ⟨⟨ro2, rss⟩, h5, h6⟩ := h
          obtain ⟨s1, s2⟩ := advance_sub h5
          have g3 : LW a { r1 with readOnly := ro2 } := by
            refine ⟨g1.1.ro (fun hs p hp => g2.1.rd hs p (s1 p hp)), g1.2⟩
          refine respondReadStates_lw h6 g3 (fun rs hrs => ?_)
          obtain ⟨k, hk⟩ := s2 rs hrs
          exact g2.1.rd g2.2 (k, rs) hk
        · cases h; exact g2

theorem sendAppendPrSet_lw {a r r' : Raft} {to : Nat} {pr : Progress}
    (hg : r.prs.get to = some pr)
    (h : (r.sendAppendPr to pr).bind
      (fun (r, pr) => Res.ok { r with prs := r.prs.set to pr }) = .ok r') (h0 : LW a r) :
    LW a r' := by
  rw [Res.bind_eq_ok_iff] at h
  obtain ⟨⟨r2, pr3⟩, h3, h4⟩ := h
  cases h4
  obtain ⟨k1, k2⟩ := sendAppendPr_lw h3 h0 (h0.getPr hg)
  exact k1.setPr k2

theorem handleTransferLeader_lw {a r r' : Raft} {m : Message}
    (h : r.handleTransferLeader m = .ok r') (h0 : LW a r) : LW a r' := by
  unfold Raft.handleTransferLeader at h
  repeat' (first | split at h | (simp only at h; split at h))
  all_goals first
    | (cases h; exact h0)
    | (cases h; done)
    | exact sendTimeoutNow_lw h (LW.mk' h0)
    | exact sendAppendPrSet_lw (by assumption) h (LW.mk' h0)
    | exact sendTimeoutNow_lw h (LW.mk' (r := r.abortLeaderTransfer) (LW.mk' h0))
    | exact sendAppendPrSet_lw (by assumption) h (LW.mk' (r := r.abortLeaderTransfer) (LW.mk' h0))

theorem handleSnapshotStatus_lw {a r : Raft} {m : Message} (h0 : LW a r)
    (hQ : ∀ x ∈ r.msgs, x.msgType = .msgSnapshot →
      x.snapshot.metadata.index ≤ r.raftLog.lastIndex) :
    LW a (r.handleSnapshotStatus m) := by
  unfold Raft.handleSnapshotStatus
  split
  · exact h0
  · rename_i pr hg
    split
    · exact h0
    · rename_i hs
      have hs' : pr.state = .snapshot := by
        cases hst : pr.state <;> simp_all
      refine h0.setPr ?_
      rcases h0.getPr hg with c | c
      · exact .inl c
      · right
        have hpb : pr.pendingSnapshot ≤ r.raftLog.lastIndex := by
          rcases c.2.2 hs' with d | ⟨x, hx, hty, hi⟩
          · exact d
          · rw [← hi]; exact hQ x hx hty
        split
        · have c2 : POk r.msgs r.raftLog.lastIndex pr.snapshotFailure :=
            ⟨c.1, c.2.1, fun _ => .inl (Nat.zero_le _)⟩
          exact (c2.becomeProbe (fun _ => Nat.zero_le _)).congr rfl rfl rfl
        · exact (c.becomeProbe (fun _ => hpb)).congr rfl rfl rfl

theorem handleUnreachable_lw {a r : Raft} {m : Message} (h0 : LW a r) :
    LW a (r.handleUnreachable m) := by
  unfold Raft.handleUnreachable
  split
  · exact h0
  · rename_i pr hg
    split
    · rename_i hrep
      exact h0.setPr (PQ.imp (h0.getPr hg)
        (fun c => c.becomeProbe_ns (by rw [hrep]; intro hc; cases hc)))
    · exact h0

theorem filterProposalEntry_lw {a r r' : Raft} {i : Nat} {e e' : Entry}
    (h : r.filterProposalEntry i e = some (r', e')) (h0 : LW a r) : LW a r' := by
  unfold Raft.filterProposalEntry at h
  lws_auto h [LW.mk']

theorem filterProposal_lw {a : Raft} : ∀ (es : List Entry) (r r' : Raft) (i : Nat)
    (oes : Option (List Entry)), r.filterProposal i es = (r', oes) → LW a r → LW a r' := by
  intro es
  induction es with
  | nil => intro r r' i oes h h0; simp [Raft.filterProposal] at h; rw [← h.1]; exact h0
  | cons e es ih =>
    intro r r' i oes h h0
    unfold Raft.filterProposal at h
    split at h
    · cases h; exact h0
    · rename_i r1 e1 h1
      have h2 := filterProposalEntry_lw h1 h0
      split at h
      · rename_i r2 es2 h3
        cases h; exact ih _ _ _ _ h3 h2
      · rename_i r2 h3
        cases h; exact ih _ _ _ _ h3 h2

end CS
end Raft
end RaftModel

namespace RaftModel
namespace Raft
namespace CS

theorem answerNow_lw {a r r' : Raft} {m : Message} {e : Option RaftError}
    (h : (r.handleReadyReadIndex m r.raftLog.committed).bind (fun (r, om) =>
          match om with
          | some m' => (r.send m').bind (fun r => Res.ok (r, (none : Option RaftError)))
          | none => .ok (r, none)) = .ok (r', e)) (h0 : LW a r) : LW a r' := by
  rw [Res.bind_eq_ok_iff] at h
  obtain ⟨⟨r1, om⟩, h1, h2⟩ := h
  obtain ⟨g1, gl, gm⟩ := handleReadyReadIndex_lw h1 h0
  dsimp only at h2
  split at h2
  · rename_i m'
    rw [Res.bind_eq_ok_iff] at h2
    obtain ⟨r2, h3, h4⟩ := h2
    cases h4
    obtain ⟨t1, t2⟩ := gm m' rfl
    exact send_rir_lw h3 t1 (by rw [t2, gl]; exact Nat.le_refl _) g1
  · cases h2; exact g1

theorem stepLeader_pw {a r r' : Raft} {m : Message} {e : Option RaftError}
    (h : r.stepLeader m = .ok (r', e)) (h0 : LW a r)
    (hB : m.msgType = .msgAppendResponse → m.reject = false → m.index ≤ r.raftLog.lastIndex)
    (hQ : m.msgType = .msgSnapStatus → r.state = .leader → ∀ x ∈ r.msgs,
      x.msgType = .msgSnapshot → x.snapshot.metadata.index ≤ r.raftLog.lastIndex) :
    PW a r' := by
  unfold Raft.stepLeader at h
  split at h
  · -- MsgBeat
    rw [Res.bind_eq_ok_iff] at h
    obtain ⟨r1, h1, h2⟩ := h
    cases h2
    exact (bcastHeartbeat_lw h1 h0).1
  · -- MsgCheckQuorum
    split at h
    rename_i r1 active hq
    have g1 := checkQuorumActive_lw hq h0
    split at h
    · cases h; exact becomeFollower_pw _ _ g1.1
    · cases h; exact g1.1
  · -- MsgPropose
    split at h
    · cases h
    · split at h
      · cases h; exact h0.1
      · split at h
        · cases h; exact h0.1
        · split at h
          · rename_i r1 hf
            cases h
            exact (filterProposal_lw _ _ _ _ _ hf h0).1
          · rename_i r1 es hf
            have g1 := filterProposal_lw _ _ _ _ _ hf h0
            split at h
            · rename_i r2 ha
              cases h; exact (appendEntry_lw ha g1).1
            · rename_i r2 ha
              rw [Res.bind_eq_ok_iff] at h
              obtain ⟨r3, h3, h4⟩ := h
              cases h4
              exact (bcastAppend_lw h3 (appendEntry_lw ha g1)).1
            · cases h
            · cases h
  · -- MsgReadIndex
    split at h
    · cases h
    · cases h
    · cases h; exact h0.1
    · simp only [] at h
      split at h
      · exact (answerNow_lw h h0).1
      · split at h
        · split at h
          · cases h
          · rename_i e0 he0
            rw [Res.bind_eq_ok_iff] at h
            obtain ⟨ro, h1, h2⟩ := h
            rw [Res.bind_eq_ok_iff] at h2
            obtain ⟨r2, h3, h4⟩ := h2
            cases h4
            have g1 : LW a { r with readOnly := ro } := by
              refine ⟨h0.1.ro (fun hs p hp => ?_), h0.2⟩
              rcases addRequest_index h1 p hp with c | c
              · exact h0.1.rd hs p c
              · rw [c]; exact Nat.le_refl _
            exact (bcastHeartbeatWithCtx_lw h3 g1).1
        · exact (answerNow_lw h h0).1
  · -- MsgAppendResponse
    rename_i hty
    rw [Res.bind_eq_ok_iff] at h
    obtain ⟨r1, h1, h2⟩ := h
    cases h2
    exact (handleAppendResponse_lw h1 h0 (hB hty)).1
  · -- MsgHeartbeatResponse
    rw [Res.bind_eq_ok_iff] at h
    obtain ⟨r1, h1, h2⟩ := h
    cases h2
    exact (handleHeartbeatResponse_lw h1 h0).1
  · rename_i hty; cases h; exact (handleSnapshotStatus_lw h0 (hQ hty h0.2)).1
  · cases h; exact (handleUnreachable_lw h0).1
  · rw [Res.bind_eq_ok_iff] at h
    obtain ⟨r1, h1, h2⟩ := h
    cases h2
    exact (handleTransferLeader_lw h1 h0).1
  · cases h; exact h0.1

end CS
end Raft
end RaftModel
