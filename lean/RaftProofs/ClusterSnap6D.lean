import RaftProofs.ClusterSnap6C

/-!
Commit safety of `ClusterSem` with compaction, snapshots and `request_snapshot`, part 6D: **`reqok` is
derived**.  `Snap5.Hyp3r` is the bundle `Snap5.Hyp3w` (`RaftProps/C01i.lean`: `Hyp3r_partial`) *without*
the field `reqok`; `Hyp3r.reqInv` proves, by induction along the history, that every node of every
state satisfies `RQ.ReqInv` ("a node with a pending snapshot request is not leader and its log ends at
or before the requested index"): initial states and restarted nodes are freshly booted (`RQ.boot_pend`:
no request), and a `call` / `deliver` / `send` step is one `Node.call` of the stepping node
(`RQ.call_reqI`, every `NodeOp`); the representation invariant of the logs comes from
`RaftProps.C05.cluster_inv`, which needs nothing about requests.  Hence `Hyp3r.toHyp3w`.
-/
namespace RaftModel
namespace Cluster
namespace Snap5
open Node Raft Raft.CC RaftProps.C02 RaftProps.C05 Snap

/-- every node of the state satisfies `RQ.ReqInv` -/
def ReqInvS (s : Sys) : Prop := ∀ i st, s.node i = some st → RQ.ReqInv st

theorem ReqInvS.reqOk {s : Sys} (h : ReqInvS s) : ReqOk s :=
  fun i st hi => (h i st hi).reqOkN

theorem ReqInvS.init {s : Sys} (h : Init s) : ReqInvS s := by
  intro i st hi
  obtain ⟨c, store, rnd, _, hb⟩ := h.2 i st hi
  exact RQ.boot_reqInv c store rnd st hb

theorem ReqInvS.setNode {a : Sys} (h : ReqInvS a) (k : Nat) (st' : NState) (h' : RQ.ReqInv st') :
    ReqInvS (a.setNode k st') := by
  intro i st hi
  by_cases hik : i = k
  · subst hik
    rw [node_setNode_self] at hi
    cases hi
    exact h'
  · rw [node_setNode_ne a k i st' hik] at hi
    exact h i st hi

/-- **one contract-abiding step keeps the invariant** (the invariant is local to the stepping node) -/
theorem ReqInvS.kstep {a b : Sys} (hs : KStep a b)
    (hinv : ∀ i st, a.node i = some st → st.raft.raftLog.Inv) (h : ReqInvS a) : ReqInvS b := by
  cases hs with
  | call k st st' rnd op res h1 h2 h3 h5 h6 h7 h9 h10 h8 h4 =>
    refine h.setNode k st' (RQ.call_reqI st st' rnd op res (hinv k st h1) ?_ (h k st h1) h4)
    intro j hj
    refine ⟨h3 j hj, ?_⟩
    apply Classical.byContradiction
    intro hne
    have := h7 hne
    rw [hj] at this
    cases this
  | deliver k st st' rnd m res h1 h2 h3 h5 h9 h6 h4 =>
    exact h.setNode k st' (RQ.call_reqI st st' rnd (.step m) res (hinv k st h1)
      (fun j hj => by cases hj) (h k st h1) h4)
  | send k st st' h1 h2 h2' h3 =>
    intro i sti hi
    exact h.setNode k st' (RQ.call_reqI st st' none .drain _ (hinv k st h1)
      (fun j hj => by cases hj) (h k st h1) h3) i sti hi
  | restart k st st' c rnd h1 h2 h3 h4 =>
    exact h.setNode k st' (RQ.boot_reqInv c _ rnd st' h3)

/-- **the hypotheses of `RaftProps/C01j.lean`**: those of `Snap5.Hyp3w` (`Hyp3r_partial` of C01i)
*without* `reqok` — i.e. the hypotheses of C01h (`Snap2.Hyp3w`) without the gap `noreq`:
`request_snapshot` may be used freely -/
structure Hyp3r (cfg : JointConfig) (c0 : Nat) (h : List Sys) : Prop where
  hist : History h
  fix : ∀ s ∈ h, FixedCfg cfg s
  ne : cfg.incoming ≠ []
  nd1 : cfg.incoming.Nodup
  nd2 : cfg.outgoing.Nodup
  init : ∀ s : Sys, h[0]? = some s → InitOk s
  steps : ∀ (n : Nat) (a b : Sys), h[n]? = some a → h[n + 1]? = some b → KStep a b
  nb : ∀ s ∈ h, NoBatch s
  nolone : ∀ i Q, IsJointQuorum cfg Q → ∃ k ∈ Q, k ≠ i
  first0 : ∀ s : Sys, h[0]? = some s → ∀ i st, s.node i = some st →
    st.raft.raftLog.store.firstIndex = c0 + 1
  initc : ∀ s : Sys, h[0]? = some s → ∀ i st, s.node i = some st → st.raft.raftLog.committed = c0
  pend0 : ∀ s : Sys, h[0]? = some s → ∀ i st, s.node i = some st →
    st.raft.raftLog.unstable.snapshot = none
  snapt0 : ∀ s0, h[0]? = some s0 → ∀ i sti, s0.node i = some sti → ∀ t0,
    sti.raft.raftLog.abs.snapTerm = some t0 → ∀ j stj, s0.node j = some stj → t0 ≤ stj.raft.term
  snapidx : ∀ s ∈ h, ∀ x ∈ s.net, x.msgType = .msgSnapshot → c0 < x.snapshot.metadata.index

variable {cfg : JointConfig} {c0 : Nat} {h : List Sys}

/-- **the invariant in every state of the history** -/
theorem Hyp3r.reqInv (H : Hyp3r cfg c0 h) : ∀ (n : Nat) (s : Sys), h[n]? = some s → ReqInvS s := by
  obtain ⟨s0, _, hall⟩ := RaftProps.C05.cluster_inv cfg H.ne H.nd1 H.nd2 h H.hist H.fix H.init
    (fun n a b ha hb => (H.steps n a b ha hb).cstep) H.nb
  refine hist_induct h (fun _ s => ReqInvS s) (fun s h0 => ReqInvS.init (hist_init H.hist s h0)) ?_
  intro n a b ha hb ih
  exact ReqInvS.kstep (H.steps n a b ha hb) (hall a (List.mem_iff_getElem?.2 ⟨n, ha⟩)).inv ih

/-- **`reqok` derived** -/
theorem Hyp3r.reqok (H : Hyp3r cfg c0 h) : ∀ s ∈ h, ReqOk s := by
  intro s hs
  obtain ⟨n, hn⟩ := List.mem_iff_getElem?.1 hs
  exact (H.reqInv n s hn).reqOk

/-- **the bundle without `reqok` implies the bundle of `RaftProps/C01i.lean`** -/
theorem Hyp3r.toHyp3w (H : Hyp3r cfg c0 h) : Hyp3w cfg c0 h :=
  { hist := H.hist, fix := H.fix, ne := H.ne, nd1 := H.nd1, nd2 := H.nd2, init := H.init,
    steps := H.steps, nb := H.nb, reqok := H.reqok, nolone := H.nolone, first0 := H.first0,
    initc := H.initc, pend0 := H.pend0, snapt0 := H.snapt0, snapidx := H.snapidx }

/-- … and conversely (forget `reqok`) -/
theorem Hyp3w.toHyp3r (H : Hyp3w cfg c0 h) : Hyp3r cfg c0 h :=
  { hist := H.hist, fix := H.fix, ne := H.ne, nd1 := H.nd1, nd2 := H.nd2, init := H.init,
    steps := H.steps, nb := H.nb, nolone := H.nolone, first0 := H.first0,
    initc := H.initc, pend0 := H.pend0, snapt0 := H.snapt0, snapidx := H.snapidx }

/-- the example history of `ClusterSnap5Z.lean` (42 states, `request_snapshot` used) satisfies the
bundle -/
theorem rx_hyp3r : Hyp3r RaftProps.C02.c02x_cfg 0 rx_hist :=
  (Hyp3a.toHyp3w (Hyp3.toHyp3a rx_hyp3)).toHyp3r

end Snap5
end Cluster
end RaftModel
