import RaftProofs.ClusterFlowC
import RaftProofs.ClusterVoteH

/-!
Cluster-level flow control (C13), part D: the window invariant through **every** `NodeOp`
(`call_tok`: `Node.call`, all 35 constructors, `step` / `rstep` / `drain` included), through
`Node.boot` (`boot_tok`), and along every history of `ClusterSem` (`flow_inv`: plain `History`, no
further hypothesis).
-/
namespace RaftModel
namespace Raft
namespace FL
open Node

/-- the postcondition of a call -/
abbrev NQ : OpRes × NState → Prop := fun x => TOk x.2.raft.prs

theorem unitRes_tok (st : NState) (x : Res (Raft × Option RaftError))
    (hx : Res.Post (fun y => TOk y.1.prs) x) : Res.Post NQ (unitRes st x) := by
  unfold unitRes
  split
  · exact hx
  · exact hx
  · trivial
  · trivial

theorem okRes_tok (st : NState) (x : Res Raft) (hx : Res.Post RQ x) : Res.Post NQ (okRes st x) := by
  unfold okRes
  split
  · exact hx
  · trivial
  · trivial

theorem rawStep_tok (r : Raft) (m : Message) (h : TOk r.prs) :
    Res.Post (fun y => TOk y.1.prs) (RawNode.step r m) := by
  unfold RawNode.step
  split
  · exact h
  · split
    · exact step_tok r m h
    · exact h

theorem stabilize_tok (st : NState) (h : TOk st.raft.prs) : Res.Post NQ (Node.stabilize st) := by
  unfold Node.stabilize
  simp only []
  split
  · exact h
  · trivial
  · trivial

theorem persistSnap_tok (st : NState) (h : TOk st.raft.prs) : Res.Post NQ (Node.persistSnap st) := by
  unfold Node.persistSnap
  simp only []
  split
  · exact h
  · split
    · exact h
    · trivial
    · split
      · trivial
      · trivial
      · split
        · rename_i raft heq
          exact (Res.Post.of_eq (onPersistSnap_tok _ _ (by exact h)) heq :)
        · trivial
        · trivial

theorem nodeCommitApply_tok (st : NState) (k : Nat) (h : TOk st.raft.prs) :
    Res.Post NQ (Node.commitApply st k) := by
  unfold Node.commitApply
  simp only []
  have hr1 : Res.Post RQ
      (if st.raft.raftLog.applied < k ∧ k ≤ st.raft.raftLog.committed then
        match st.raft.raftLog.slice (st.raft.raftLog.applied + 1) (k + 1) none false with
        | .ok ents => .ok (st.raft.reduceUncommittedSize ents)
        | .err _ => .ok st.raft
        | .panic s => .panic s
      else .ok st.raft : Res Raft) := by
    split
    · split
      · exact reduceUncommittedSize_tok _ _ h
      · exact h
      · trivial
    · exact h
  have hb := Res.post_bind hr1 (fun r hr => commitApply_tok r k hr)
  split
  · rename_i r heq
    have h2 : TOk r.prs := (Res.Post.of_eq hb heq :)
    show TOk _
    split
    · exact h2
    · exact h2
  · trivial
  · trivial

theorem applyOp_tok (st : NState) (op : NodeOp) (h : TOk st.raft.prs) :
    Res.Post NQ (applyOp st op) := by
  cases op with
  | tick =>
    simp only [applyOp]
    split
    · rename_i raft b heq
      exact (Res.Post.of_eq (tick_tok st.raft h) heq :)
    · trivial
    · trivial
  | step m => exact unitRes_tok st _ (rawStep_tok st.raft m h)
  | rstep m => exact unitRes_tok st _ (step_tok st.raft m h)
  | propose c d => exact unitRes_tok st _ (step_tok st.raft _ h)
  | proposeCc t c d => exact unitRes_tok st _ (step_tok st.raft _ h)
  | readIndex c => exact okRes_tok st _ (stepIgnore_tok st.raft _ h)
  | transferLeader x => exact okRes_tok st _ (stepIgnore_tok st.raft _ h)
  | campaign => exact unitRes_tok st _ (step_tok st.raft _ h)
  | ping => exact okRes_tok st _ (ping_tok st.raft h)
  | requestSnapshot => exact unitRes_tok st _ (requestSnapshot_tok st.raft h)
  | reportUnreachable x => exact okRes_tok st _ (stepIgnore_tok st.raft _ h)
  | reportSnapshot x f => exact okRes_tok st _ (stepIgnore_tok st.raft _ h)
  | applyConfChange cc =>
    simp only [applyOp]
    split
    · rename_i raft cs heq
      exact (Res.Post.of_eq (applyConfChange_tok st.raft cc h) heq :)
    · rename_i raft e heq
      exact (Res.Post.of_eq (applyConfChange_tok st.raft cc h) heq :)
    · trivial
    · trivial
  | stabilize => exact stabilize_tok st h
  | onPersistEntries i t => exact okRes_tok st _ (onPersistEntries_tok st.raft i t h)
  | persistSnap => exact persistSnap_tok st h
  | commitApply k => exact nodeCommitApply_tok st k h
  | compact k =>
    simp only [applyOp]
    split
    · exact h
    · trivial
    · trivial
  | drain => exact h
  | triggerSnap => exact h
  | triggerLog b => exact h
  | setPriority p => exact h
  | setBatchAppend b => exact h
  | skipBcastCommit b => exact h
  | setCheckQuorum b => exact h
  | adjustMaxInflight id cap => exact okRes_tok st _ (adjustMaxInflightMsgs_tok st.raft id cap h)
  | maybeFreeInflightBuffers => exact maybeFreeInflightBuffers_tok st.raft h
  | enableGroupCommit b => exact okRes_tok st _ (enableGroupCommit_tok st.raft b h)
  | assignCommitGroups v => exact okRes_tok st _ (assignCommitGroups_tok st.raft v h)
  | clearCommitGroup => exact clearCommitGroup_tok st.raft h
  | checkGroupCommitConsistent =>
    simp only [applyOp]
    split
    · exact h
    · exact h
    · trivial
    · trivial
  | setMaxApplyUnpersistedLogLimit x => exact h
  | setMaxCommittedSizePerReady x => exact h
  | onEntriesFetched to term aggressively =>
    simp only [applyOp]
    split
    · exact h
    · split
      · exact h
      · refine okRes_tok st _ ?_
        split
        · exact sendAppendAggressively_tok st.raft to h
        · exact sendAppend_tok st.raft to h

/-- **one call of a node, any `NodeOp`, keeps every in-flight window well-formed** -/
theorem call_tok {st st' : NState} {rnd : Option Nat} {op : NodeOp} {res : OpRes}
    (h : TOk st.raft.prs) (hc : Node.call st rnd op = .ok (res, st')) : TOk st'.raft.prs := by
  unfold Node.call at hc
  exact (Res.Post.of_eq (applyOp_tok _ op (by exact h)) hc :)

/-- **a freshly booted node has well-formed in-flight windows** -/
theorem boot_tok {c : Config} {store : MemStorage} {rnd : Option Nat} {st : NState}
    (hb : Node.boot c store rnd = .ok (.ok st)) : TOk st.raft.prs := by
  unfold Node.boot at hb
  split at hb
  · rename_i raft heq
    cases hb
    unfold RawNode.new at heq
    split at heq
    · cases heq
    · exact (Res.Post.of_eq (new_tok c store rnd) heq :)
  · cases hb
  · cases hb
  · cases hb

end FL
end Raft

namespace Cluster
open Node Raft.FL

/-- every progress of every node has a well-formed in-flight window -/
def FlowInv (s : Sys) : Prop := ∀ i st, s.node i = some st → TOk st.raft.prs

theorem FlowInv.init {s : Sys} (h : Init s) : FlowInv s := by
  intro i st hi
  obtain ⟨c, store, rnd, _, hb⟩ := h.2 i st hi
  exact boot_tok hb

theorem FlowInv.setNode {s : Sys} (h : FlowInv s) (k : Nat) (st' : NState)
    (hk : TOk st'.raft.prs) : FlowInv (s.setNode k st') := by
  intro i st hi
  by_cases hik : i = k
  · subst hik
    rw [node_setNode_self] at hi; cases hi; exact hk
  · rw [node_setNode_ne s k i st' hik] at hi
    exact h i st hi

theorem FlowInv.step {s s' : Sys} (h : FlowInv s) (hs : Step s s') : FlowInv s' := by
  cases hs with
  | call i st st' rnd op res h1 _ h3 => exact h.setNode i st' (call_tok (h i st h1) h3)
  | deliver i st st' rnd m res h1 _ _ h4 => exact h.setNode i st' (call_tok (h i st h1) h4)
  | send i st st' h1 _ h3 =>
    have := h.setNode i st' (call_tok (h i st h1) h3)
    intro j stj hj
    exact this j stj hj
  | restart i st st' c rnd h1 _ h3 => exact h.setNode i st' (boot_tok h3)

/-- **the window invariant in every state of every history** -/
theorem flow_inv {h : List Sys} (hh : History h) : ∀ s ∈ h, FlowInv s := by
  induction hh with
  | init s hs =>
    intro x hx
    simp only [List.mem_singleton] at hx
    subst hx; exact FlowInv.init hs
  | step l a b _ hab ih =>
    intro x hx
    have hx' : x ∈ l ++ [a] ∨ x = b := by
      simp only [List.mem_append, List.mem_cons, List.not_mem_nil, or_false] at hx ⊢
      rcases hx with c | c | c
      · exact .inl (.inl c)
      · exact .inl (.inr c)
      · exact .inr c
    rcases hx' with c | c
    · exact ih x c
    · subst c
      exact (ih a (List.mem_append_right _ (List.mem_singleton.2 rfl))).step hab

end Cluster
end RaftModel
