import RaftProofs.ClusterRead4M

/-!
Cluster-level ReadIndex safety for **forwarded** reads, part 4N: the assembly.  Every read state for the
context of a forwarding `read_index` call (`FwdAt h nf f ctx`) sits on the forwarding node, appears after
the call, and its index is at least every commit index of the state in which the call was made
(`fwd_read_ok`).
-/
namespace RaftModel
namespace Cluster
namespace R4
open Node Raft Raft.CC Raft.RD.R4 RaftProps.C02 RaftProps.C05

variable {cfg : JointConfig} {c0 : Nat} {h : List Sys}

/-- what a `read_index(K)` call of a node does -/
theorem call_riOut {st st' : NState} {rnd : Option Nat} {K : Bytes} {res : OpRes}
    (h4 : Node.call st rnd (.readIndex K) = .ok (res, st')) : RiOut st.raft K st'.raft := by
  unfold Node.call at h4
  simp only [applyOp] at h4
  obtain ⟨raft, hx, hr⟩ := CV.okRes_ok h4
  rw [hr]
  exact riOut_rebase (readIndex_cases hx)

/-- a `read_index` call that registers its context is not a forwarding one -/
theorem regAt_not_fwdAt (H : Hyp3w cfg c0 h)
    (safe : ∀ s ∈ h, ∀ i st, s.node i = some st → st.raft.readOnly.option = .safe)
    {n i f : Nat} {K K' : Bytes} (hr : RegAt h n i K) (hf : FwdAt h n f K') : False := by
  have H2 := H.toHyp2w
  obtain ⟨a, b, st, st', rnd, res, h1, h2, h3, hcall, h5, hnot, rs, hin⟩ := hr
  obtain ⟨a', b', st2, st2', _, _, p1, p2, p3, _, p5, hfo, _⟩ := hf
  rw [h1] at p1; cases p1
  rw [h2] at p2; cases p2
  have e := setNode_head_inj (h5.symm.trans p5)
  subst e
  rw [h3] at p3; cases p3
  cases call_riOut hcall with
  | frame hf => rw [hf.ro] at hin; exact hnot rs hin
  | fwd _ _ hcore _ =>
    have e1 : st'.raft.readOnly = st.raft.readOnly := congrArg RCore.ro hcore
    rw [e1] at hin; exact hnot rs hin
  | now hs =>
    rcases hs with c | c
    · rw [not_singleton H2 (mem_of_get h1) h3] at c; cases c
    · exact c (safe a (mem_of_get h1) i st h3)
  | reg hl _ _ _ _ _ => rw [hfo] at hl; cases hl

/-- two forwarding calls at one step are made on the same node -/
theorem fwdAt_node {n f1 f2 : Nat} {K1 K2 : Bytes} (h1 : FwdAt h n f1 K1) (h2 : FwdAt h n f2 K2) :
    f1 = f2 := by
  obtain ⟨a, b, _, _, _, _, p1, p2, _, _, p5, _⟩ := h1
  obtain ⟨a', b', _, _, _, _, q1, q2, _, _, q5, _⟩ := h2
  rw [p1] at q1; cases q1
  rw [p2] at q2; cases q2
  exact setNode_head_inj (p5.symm.trans q5)

/-- **a release of the request that a forwarding call filed**: it happens after the call, answers the
forwarding node, and the read index covers every commit index of the state of the call -/
theorem release_final (H : RdHypF2 cfg c0 h) {nf f : Nat} {ctx : Bytes} (hfwd : FwdAt h nf f ctx)
    {sn : Sys} (hn : h[nf]? = some sn)
    {n : Nat} {a : Sys} (ha : h[n]? = some a) {v : Nat} {st : NState} (hva : a.node v = some st)
    {m : Message} (hm : m.msgType = .msgHup ∨ (m ∈ a.net ∧ m.to = v))
    {rs0 : ReadIndexStatus} {Kack : Bytes} {acks : List Nat} {p i : Nat}
    (c1 : (ctx, rs0) ∈ st.raft.readOnly.pendingReadIndex)
    (c5 : st.raft.readOnly.readIndexQueue[p]? = some ctx)
    (c6 : st.raft.readOnly.readIndexQueue[i]? = some Kack) (c7 : p ≤ i)
    (c8 : Tracker.hasQuorum cfg acks = true) (c9 : ∀ u ∈ acks, AckOk st.raft m Kack u)
    {j : Nat} (hdst : rs0.req.frm = 0 ∨ rs0.req.frm = j) :
    j = f ∧ nf < n ∧ ∀ u stu, sn.node u = some stu → stu.raft.raftLog.committed ≤ rs0.index := by
  have HF := H.toRdHypF
  have Hw := H.toHyp3w
  have H2 := Hw.toHyp2w
  have hne : ctx ≠ [] := H.nonempty nf f ctx hfwd.call
  obtain ⟨n0, i0, hlt, hreg⟩ := occ_issued Hw H.safe n a ha ctx hne (.inl ⟨v, st, hva, .inl ⟨rs0, c1⟩⟩)
  obtain ⟨_, hafter, hb⟩ := rel_bound H hreg ha hva hm c1 c5 c6 c7 c8 c9
  have hnf : nf < n0 := by
    rcases hreg with c | ⟨m0, idx, c⟩
    · have e := H.uniqc n0 nf i0 f ctx c.call hfwd.call
      subst e
      exact (regAt_not_fwdAt Hw H.safe c hfwd).elim
    · obtain ⟨n2, g1, g2⟩ := fwdReg_src HF c
      have e := H.uniqc n2 nf _ f ctx g2.call hfwd.call
      omega
  refine ⟨?_, by omega, hb nf sn (by omega) hn⟩
  rcases pend_src HF n a ha v st hva ctx rs0 c1 with ⟨_, n2, i2, _, g2⟩ | ⟨n2, _, g2⟩
  · have e := H.uniqc n2 nf i2 f ctx g2.call hfwd.call
    subst e
    exact (regAt_not_fwdAt Hw H.safe g2 hfwd).elim
  · have e := H.uniqc n2 nf _ f ctx g2.call hfwd.call
    subst e
    have e2 := fwdAt_node g2 hfwd
    have hf0 : f ≠ 0 := by
      obtain ⟨a', _, st0, _, _, _, p1, _, p3, _⟩ := hfwd
      exact (((hist_all H2.hist).1 a' (mem_of_get p1)).ids f st0 p3).2
    rcases hdst with c | c
    · rw [e2] at c; exact absurd c hf0
    · rw [← c, e2]

/-- **every read state for the context of a forwarding `read_index` call, in every state of the
history, sits on the forwarding node, appears after the call, and its index is at least every commit
index of the state in which the call was made** -/
theorem fwd_read_ok (H : RdHypF2 cfg c0 h) {nf f : Nat} {ctx : Bytes} (hfwd : FwdAt h nf f ctx)
    {sn : Sys} (hn : h[nf]? = some sn) :
    ∀ (k : Nat) (s : Sys), h[k]? = some s → ∀ j st, s.node j = some st →
      ∀ x ∈ st.raft.readStates, x.requestCtx = ctx →
        j = f ∧ nf < k ∧ ∀ u stu, sn.node u = some stu → stu.raft.raftLog.committed ≤ x.index := by
  have Hw := H.toHyp3w
  have H2 := Hw.toHyp2w
  refine hist_induct h _ ?_ ?_
  · intro s h0 v st hv x hx _
    have hinit := hist_init H2.hist s h0
    obtain ⟨c, store, rnd, _, hb⟩ := hinit.2 v st hv
    rw [(boot_fresh c store rnd st hb).2.2] at hx; cases hx
  · intro n a b ha hb ih j st' hvb x hx hctx
    obtain ⟨st, hva⟩ := step_node_back (H2.steps n a b ha hb).step j st' hvb
    by_cases hold : x ∈ st.raft.readStates
    · obtain ⟨q1, q2, q3⟩ := ih j st hva x hold hctx
      exact ⟨q1, by omega, q3⟩
    · have other : ∀ k stk, j ≠ k → (a.setNode k stk).node j = some st' → False := by
        intro k stk hne hv
        rw [node_setNode_ne a k j stk hne, hva] at hv
        cases hv
        exact hold hx
      -- the moved node is `j`, and the read path kept the read states: impossible
      have same : ∀ k stk stk', a.node k = some stk → (a.setNode k stk').node j = some st' →
          stk'.raft.readStates = stk.raft.readStates → False := by
        intro k stk stk' hk hv hrs
        by_cases hjk : j = k
        · subst hjk
          rw [node_setNode_self] at hv; cases hv
          rw [hva] at hk; cases hk
          rw [hrs] at hx; exact hold hx
        · exact other k stk' hjk hv
      cases rd_step Hw ha hb with
      | call k stk stk' m hk hbe hm ho hrir =>
        subst hbe
        by_cases hjk : j = k
        · subst hjk
          rw [node_setNode_self] at hvb; cases hvb
          rw [hva] at hk; cases hk
          rcases ho.rst x hx with c | c | ⟨K, rs0, Kack, acks, p, i, c1, c2, c3, c4, c5, c6, c7, c8, c9⟩
          · exact absurd c hold
          · -- a delivered `MsgReadIndexResp`
            rcases hrir c x hx with g | ⟨_, _, en, he, hxe⟩
            · exact absurd g hold
            · rcases hm with q | ⟨q, hto⟩
              · rw [c] at q; cases q
              · obtain ⟨n1, a1, v, st1, m1, hlt, ha1, hv1, hm1, _, K, rs0, Kack, acks, p, i,
                  c1, c2, c3, c4, c5, c6, c7, c8, c9⟩ := (rir_prov Hw H.safe n a ha).net m q c
                have hK : K = ctx := by
                  have := (pend_ok Hw H.safe n1 a1 ha1).req v st1 hv1 K rs0 c1
                  unfold reqCtx at this
                  rw [← c2, he] at this
                  injection this with this
                  rw [← this, ← hctx, hxe]
                subst hK
                obtain ⟨q1, q2, q3⟩ := release_final H hfwd hn ha1 hv1 hm1 c1 c5 c6 c7 c8 c9
                  (j := j) (.inr (c4.symm.trans hto))
                refine ⟨q1, by omega, fun u stu hu => ?_⟩
                have := q3 u stu hu
                rw [← c3] at this
                rw [hxe]; exact this
          · -- a request of the node's own queue
            have hK : K = ctx := by
              have := (pend_ok Hw H.safe n a ha).req j st hva K rs0 c1
              rw [c2] at this
              injection this with this
              rw [← this, hctx]
            subst hK
            have hid := (node_ok H2 ha hva).id
            obtain ⟨q1, q2, q3⟩ := release_final H hfwd hn ha hva hm c1 c5 c6 c7 c8 c9
              (j := j) (by rw [← hid]; exact c4)
            refine ⟨q1, by omega, fun u stu hu => ?_⟩
            rw [c3]; exact q3 u stu hu
        · exact (other k stk' hjk hvb).elim
      | read k stk stk' K' rnd res hk hbe hcall ho =>
        subst hbe
        refine (same k stk stk' hk hvb ?_).elim
        cases ho with
        | frame hf => exact hf.rs
        | fwd _ _ hcore _ => exact congrArg RCore.rs hcore
        | now hs =>
          exfalso
          rcases hs with c | c
          · rw [not_singleton H2 (mem_of_get ha) hk] at c; cases c
          · exact c (H.safe a (mem_of_get ha) k stk hk)
        | reg _ _ _ _ hcore _ => exact congrArg RCore.rs hcore
      | ri k stk stk' m rnd res hk hbe hm hto hty hcall ho =>
        subst hbe
        refine (same k stk stk' hk hvb ?_).elim
        cases ho with
        | keep hs _ => exact hs.rs
        | fwd r1 hs _ hcore _ _ _ =>
          have : stk'.raft.readStates = r1.readStates := congrArg RCore.rs hcore
          exact this.trans hs.rs
        | now hs =>
          exfalso
          rcases hs with c | c
          · rw [not_singleton H2 (mem_of_get ha) hk] at c; cases c
          · exact c (H.safe a (mem_of_get ha) k stk hk)
        | reg _ _ _ _ hcore _ => exact congrArg RCore.rs hcore
      | send k stk stk' hk hbe hst =>
        subst hbe
        have hvb' : (a.setNode k stk').node j = some st' := hvb
        by_cases hjk : j = k
        · subst hjk
          rw [node_setNode_self] at hvb'; cases hvb'
          rw [hst] at hx; cases hx
        · exact (other k stk' hjk hvb').elim
      | restart k stk stk' hk hbe hf hq =>
        subst hbe
        by_cases hjk : j = k
        · subst hjk
          rw [node_setNode_self] at hvb; cases hvb
          rw [hf.2.2] at hx; cases hx
        · exact (other k stk' hjk hvb).elim

end R4
end Cluster
end RaftModel
