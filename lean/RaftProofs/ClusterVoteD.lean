import RaftProofs.ClusterVoteC

/-!
Cluster-level election safety, helper lemmas part D: the per-call invariant `VInv` through
`poll`, `campaign`, `hup`, `maybe_commit_by_vote`, `post_conf_change`, `restore`, `handle_snapshot`.
-/
namespace RaftModel
namespace Raft
namespace CV
open VoteOb

/-- same `ncore`, and every real-vote message of the queue is accounted for -/
theorem VInv.of_ncore {a r r' : Raft} {m : Message} (h : VInv a m r) (hn : ncore r' = ncore r)
    (hm : ∀ x ∈ r'.msgs, isRVm x = true → x ∈ a.msgs ∨ Fresh a m r' x) : VInv a m r' := by
  have e1 : r'.term = r.term := congrArg NCore.term hn
  have e2 : r'.vote = r.vote := congrArg NCore.vote hn
  have e3 : r'.id = r.id := congrArg NCore.id hn
  have e4 : r'.state = r.state := congrArg NCore.state hn
  have e5 : r'.promotable = r.promotable := congrArg NCore.promotable hn
  have e6 : r'.prs.conf = r.prs.conf := congrArg NCore.conf hn
  have e7 : r'.prs.votes = r.prs.votes := congrArg NCore.votes hn
  have e8 : r'.raftLog.store.hardState = r.raftLog.store.hardState := congrArg NCore.hs hn
  have e9 : r'.prs.voters = r.prs.voters := by unfold ProgressTracker.voters; rw [e6]
  refine ⟨e3.trans h.id, e8.trans h.hs, h.tv.trans (TV.of_eq e1 e2), ?_, ?_, hm, ?_, ?_⟩
  · rw [e5, e9, e3]; exact h.pk
  · rw [e4, e5]; exact h.nf
  · rw [e4, e1, e7]; exact h.cand
  · rw [e4, e1, e9]; exact h.lead

theorem isRVm_type {x : Message} (h : isRVm x = true) :
    x.msgType = .msgRequestVote ∨ (x.msgType = .msgRequestVoteResponse ∧ x.reject = false) := by
  unfold isRVm at h
  simp only [Bool.or_eq_true, beq_iff_eq, Bool.and_eq_true, Bool.not_eq_true'] at h
  exact h

/-- the vote-request loop of `campaign` -/
theorem sendVoteRequests_vinv {a r : Raft} {m : Message} (h : VInv a m r) (ct : CampaignType)
    (vm : MsgType) (term : Nat) (hvm : vm = .msgRequestVote ∨ vm = .msgRequestPreVote)
    (hterm : term ≠ 0)
    (hreq : vm = .msgRequestVote → m.msgType ≠ .msgRequestVote ∧ a.term < term ∧ GeV r term a.id) :
    Res.Post (fun r' => VInv a m r' ∧ TV r r') (r.sendVoteRequests ct vm term) := by
  apply Res.post_intro
  intro r' hs
  obtain ⟨lt, c, cterm, _, _, e⟩ := c02_sendVoteRequests_spec hvm hterm hs
  subst e
  refine ⟨h.of_ncore rfl ?_, TV.refl _⟩
  intro x hx hrv
  rcases List.mem_append.1 hx with hx | hx
  · rcases h.msgs x hx hrv with g | g
    · exact Or.inl g
    · exact Or.inr (g.mono (TV.refl _))
  · right
    simp only [List.mem_map] at hx
    obtain ⟨to, _, e⟩ := hx
    have t1 : x.msgType = vm := by rw [← e]; rfl
    have t2 : x.frm = r.id := by rw [← e]; rfl
    have t3 : x.term = term := by rw [← e]; rfl
    have hv : vm = .msgRequestVote := by
      rcases isRVm_type hrv with g | ⟨g, _⟩
      · rw [← t1]; exact g
      · rcases hvm with q | q
        · exact q
        · rw [t1, q] at g; cases g
    obtain ⟨q1, q2, q3⟩ := hreq hv
    refine ⟨t2.trans h.id, by rw [t3]; exact hterm, fun _ => ⟨q1, by rw [t3]; exact q2, ?_⟩, fun hc => ?_⟩
    · rw [t3]; exact q3.mono (TV.refl _)
    · rw [t1, hv] at hc; cases hc

/-- `poll` (raft.rs:2281) -/
theorem pollWith_vinv {a : Raft} {m : Message} (onPreWin : Raft → Res Raft) (r : Raft) (frm : Nat)
    (t : MsgType) (v : Bool) (h : VInv a m r)
    (hs : r.state = .candidate ∨ r.state = .preCandidate)
    (hfv : r.state = .candidate → v = true → Backed a m r.term frm)
    (hp : ∀ r1, VInv a m r1 → r1.state = .preCandidate →
      Res.Post (fun x => VInv a m x ∧ TV r1 x) (onPreWin r1)) :
    Res.Post (fun x => VInv a m x.1 ∧ TV r x.1) (pollWith onPreWin r frm t v) := by
  apply Res.post_intro
  rintro ⟨r', res⟩ hpoll
  obtain ⟨p1, p2⟩ := c02_pollWith_cases hpoll
  have hv := h.voted frm v hfv
  have htv0 : TV r (voted r frm v) := TV.of_eq rfl rfl
  rcases p2 with ⟨_, hpc, hf⟩ | ⟨hw, hnp, hwon⟩ | ⟨_, e⟩ | ⟨_, e⟩
  · have := Res.Post.of_eq (hp _ hv hpc) hf
    exact ⟨this.1, htv0.trans this.2⟩
  · unfold wonBy at hwon
    rw [Res.bind_eq_ok_iff] at hwon
    obtain ⟨r1, hb, hbc⟩ := hwon
    have hcand : (voted r frm v).state = .candidate := by
      rcases hs with g | g
      · exact g
      · exact absurd g hnp
    have hQ : ∃ Q, IsJointQuorum (voted r frm v).prs.voters Q ∧
        ∀ j ∈ Q, Backed a m (voted r frm v).term j := by
      refine ⟨RaftProps.C02.granters (voted r frm v).prs.votes, ?_, fun j hj => ?_⟩
      · apply RaftProps.C02.C02_won_gives_joint_quorum
        have : (voted r frm v).prs.tallyVotes.2.2 = .won := by rw [← p1]; exact hw
        exact this
      · exact hv.cand hcand j (mem_granters hj)
    have h1 := Res.Post.of_eq (becomeLeader_vinv hv hQ) hb
    have hf := Res.Post.of_eq (bcastAppend_vf r1) hbc
    exact ⟨h1.1.vf hf, (htv0.trans h1.2).trans hf.tv⟩
  · subst e
    exact ⟨hv.becomeFollower r.term 0 (Nat.le_refl _),
      htv0.trans (becomeFollower_tv (voted r frm v) r.term 0 (Nat.le_refl _))⟩
  · subst e
    exact ⟨hv, htv0⟩

/-- `campaign` (raft.rs:1287), for any `poll` that meets the specification of `poll` -/
theorem campaignWith_vinv {a : Raft} {m : Message}
    (poll : Raft → Nat → MsgType → Bool → Res (Raft × VoteResult))
    (hpoll : ∀ r1 t, VInv a m r1 → (r1.state = .candidate ∨ r1.state = .preCandidate) →
      Res.Post (fun x => VInv a m x.1 ∧ TV r1 x.1) (poll r1 r1.id t true))
    (r : Raft) (ct : CampaignType) (h : VInv a m r)
    (hp : a.state ≠ .follower ∨ r.promotable = true) (hm : m.msgType ≠ .msgRequestVote) :
    Res.Post (fun x => VInv a m x ∧ TV r x) (campaignWith poll r ct) := by
  unfold campaignWith
  dsimp only
  apply Res.post_bind (P := fun x => VInv a m x.1 ∧ TV r x.1 ∧
      (x.1.state = .candidate ∨ x.1.state = .preCandidate) ∧ x.2.2 ≠ 0 ∧
      (x.2.1 = .msgRequestVote ∨ x.2.1 = .msgRequestPreVote) ∧
      (x.2.1 = .msgRequestVote → a.term < x.2.2 ∧ x.1.term = x.2.2 ∧ x.1.vote = a.id))
  · split
    · apply Res.post_bind (becomePreCandidate_vinv h hp)
      rintro r1 ⟨g1, g2, g3, _⟩
      split
      · trivial
      · exact ⟨g1, g2, Or.inr g3, by simp, Or.inr rfl, fun hc => by cases hc⟩
    · apply Res.post_bind (becomeCandidate_vinv h hp)
      rintro r1 ⟨g1, g2, g3, g4, g5, _⟩
      refine ⟨g1, g2, Or.inl g3, ?_, Or.inl rfl, fun _ => ⟨?_, rfl, g5⟩⟩
      · show r1.term ≠ 0; omega
      · show a.term < r1.term
        have := h.tv.le; omega
  · rintro ⟨r1, vm, term⟩ ⟨g1, g2, g3, g4, g5, g6⟩
    dsimp only at g1 g2 g3 g4 g5 g6 ⊢
    apply Res.post_bind (hpoll r1 vm g1 g3)
    rintro ⟨r2, res⟩ ⟨k1, k2⟩
    dsimp only at k1 k2 ⊢
    split
    · exact ⟨k1, g2.trans k2⟩
    · refine Res.post_mono (sendVoteRequests_vinv k1 ct vm term g5 g4 (fun hv => ?_))
        (fun x hx => ⟨hx.1, (g2.trans k2).trans hx.2⟩)
      obtain ⟨q1, q2, q3⟩ := g6 hv
      refine ⟨hm, q1, ?_⟩
      have : GeV r1 term a.id := fun _ => Or.inr ⟨q2, q3⟩
      exact this.mono k2

theorem campaignAfterPreVote_vinv {a r : Raft} {m : Message} (h : VInv a m r)
    (hp : a.state ≠ .follower ∨ r.promotable = true) (hm : m.msgType ≠ .msgRequestVote) :
    Res.Post (fun x => VInv a m x ∧ TV r x) r.campaignAfterPreVote := by
  unfold campaignAfterPreVote
  refine campaignWith_vinv _ (fun r1 t g1 g2 => ?_) r _ h hp hm
  exact pollWith_vinv _ r1 r1.id t true g1 g2 (fun _ _ => Or.inl g1.id) (fun _ _ _ => trivial)

theorem poll_vinv {a : Raft} {m : Message} (r : Raft) (frm : Nat) (t : MsgType) (v : Bool)
    (h : VInv a m r) (hs : r.state = .candidate ∨ r.state = .preCandidate)
    (hfv : r.state = .candidate → v = true → Backed a m r.term frm)
    (hm : m.msgType ≠ .msgRequestVote) :
    Res.Post (fun x => VInv a m x.1 ∧ TV r x.1) (r.poll frm t v) := by
  unfold poll
  refine pollWith_vinv _ r frm t v h hs hfv (fun r1 g1 g2 => ?_)
  exact campaignAfterPreVote_vinv g1 (g1.nf (by rw [g2]; decide)) hm

theorem campaign_vinv {a r : Raft} {m : Message} (ct : CampaignType) (h : VInv a m r)
    (hp : a.state ≠ .follower ∨ r.promotable = true) (hm : m.msgType ≠ .msgRequestVote) :
    Res.Post (fun x => VInv a m x ∧ TV r x) (r.campaign ct) := by
  unfold campaign
  refine campaignWith_vinv _ (fun r1 t g1 g2 => ?_) r ct h hp hm
  exact poll_vinv r1 r1.id t true g1 g2 (fun _ _ => Or.inl g1.id) hm

theorem hup_vinv {a r : Raft} {m : Message} (b : Bool) (h : VInv a m r)
    (hm : m.msgType ≠ .msgRequestVote) :
    Res.Post (fun x => VInv a m x ∧ TV r x) (r.hup b) := by
  unfold hup
  split
  · exact ⟨h, TV.refl _⟩
  · split
    · exact ⟨h, TV.refl _⟩
    · rename_i hpr
      have hp : a.state ≠ .follower ∨ r.promotable = true := Or.inr (by simpa using hpr)
      split
      · trivial
      · trivial
      · exact ⟨h, TV.refl _⟩
      · split
        · exact ⟨h, TV.refl _⟩
        · split
          · exact campaign_vinv _ h hp hm
          · split <;> exact campaign_vinv _ h hp hm

theorem maybeCommitByVote_vinv {a r : Raft} {m : Message} (m' : Message) (h : VInv a m r) :
    Res.Post (fun x => VInv a m x ∧ TV r x) (r.maybeCommitByVote m') := by
  unfold maybeCommitByVote
  split
  · exact ⟨h, TV.refl _⟩
  · dsimp only
    split
    · exact ⟨h, TV.refl _⟩
    · split
      · trivial
      · trivial
      · exact ⟨h, TV.refl _⟩
      · rename_i log hmc
        have hst := maybeCommit_store hmc
        have hf : VF r { r with raftLog := log } := by simp [VF, ncore, hst]
        split
        · exact ⟨h.vf hf, hf.tv⟩
        · split
          · trivial
          · trivial
          · exact ⟨(h.vf hf).becomeFollower _ 0 (Nat.le_refl _),
              hf.tv.trans (becomeFollower_tv _ _ 0 (Nat.le_refl _))⟩
          · exact ⟨h.vf hf, hf.tv⟩

/-! ### `post_conf_change`, `restore` -/

/-- `post_conf_change` (raft.rs:2743), in terms of `VF` (cf. `postConfChange_spec` of C17) -/
theorem postConfChange_cases (r : Raft) :
    Res.Post (fun x =>
        (r.state = .leader ∧ Joint.contains r.prs.voters r.id = false ∧
          x.1 = ({ r with promotable := false } : Raft).becomeFollower r.term 0) ∨
        (x.1 = { r with promotable := Joint.contains r.prs.voters r.id }) ∨
        (∃ r2, VF { r with promotable := Joint.contains r.prs.voters r.id } r2 ∧
           x.1 = match r2.leadTransferee with
            | some e => if !Joint.contains r2.prs.voters e then r2.abortLeaderTransfer else r2
            | none => r2))
      r.postConfChange := by
  unfold postConfChange
  dsimp only
  split
  · rename_i h
    simp only [Bool.and_eq_true, Bool.not_eq_true', beq_iff_eq] at h
    refine Res.post_ok (Or.inl ⟨h.2, h.1, ?_⟩)
    rw [h.1]
  · split
    · exact Res.post_ok (Or.inr (Or.inl rfl))
    · apply Res.post_bind (P := fun x => VF { r with promotable := Joint.contains r.prs.voters r.id } x)
      · split
        · rename_i r1 heq
          have h1 := Res.Post.of_eq (P := fun x => VF _ x.1) (maybeCommit_vf _) heq
          exact Res.post_mono (bcastAppend_vf r1) (fun x hx => VF.trans h1 hx)
        · rename_i r1 heq
          have h1 := Res.Post.of_eq (P := fun x => VF _ x.1) (maybeCommit_vf _) heq
          refine Res.post_mono (forEachPeer_vf r1 _ ?_) (fun x hx => VF.trans h1 hx)
          intro r3 id pr
          exact Res.post_bind (maybeSendAppend_vf r3 id pr false) (fun a ha => ha)
        · trivial
        · trivial
      · intro r1 hr1
        apply Res.post_bind (P := fun x => VF { r with promotable := Joint.contains r.prs.voters r.id } x)
        · split
          · exact hr1
          · split
            · split
              · apply Res.post_bind (P := fun _ => True)
                · exact Res.post_intro (fun _ _ => trivial)
                · intro a _
                  exact Res.post_mono (respondReadStates_vf _ _)
                    (fun x hx => (hr1.trans (by simp [VF, ncore])).trans hx)
              · exact hr1.trans (by simp [VF, ncore])
            · exact hr1.trans (by simp [VF, ncore])
        · intro r2 hr2
          exact Res.post_ok (Or.inr (Or.inr ⟨r2, hr2, rfl⟩))

/-- setting `promotable` to "voter of the own configuration" -/
theorem VInv.setPromotable {a r : Raft} {m : Message} (h : VInv a m r) (b : Bool)
    (hb : b = Joint.contains r.prs.voters r.id) (hst : r.state = .follower ∨ a.state ≠ .follower) :
    VInv a m { r with promotable := b } := by
  refine ⟨h.id, h.hs, h.tv, Or.inr hb, ?_, h.msgs, h.cand, h.lead⟩
  intro hne
  rcases hst with g | g
  · exact absurd g hne
  · exact Or.inl g

theorem postConfChange_vinv' {a r : Raft} {m : Message}
    (hsp : ∀ b, b = Joint.contains r.prs.voters r.id → VInv a m { r with promotable := b }) :
    Res.Post (fun x => VInv a m x.1 ∧ TV r x.1) r.postConfChange := by
  apply Res.post_mono (postConfChange_cases r)
  rintro ⟨r', cs⟩ hc
  dsimp only at hc ⊢
  rcases hc with ⟨_, hv, e⟩ | e | ⟨r2, hf, e⟩
  · subst e
    have h1 := hsp false hv.symm
    have t0 : TV r ({ r with promotable := false } : Raft) := TV.of_eq rfl rfl
    exact ⟨h1.becomeFollower _ 0 (Nat.le_refl _),
      t0.trans (becomeFollower_tv ({ r with promotable := false } : Raft) r.term 0 (Nat.le_refl _))⟩
  · subst e
    exact ⟨hsp _ rfl, TV.of_eq rfl rfl⟩
  · have h1 := (hsp _ rfl).vf hf
    have t1 : TV r r2 := hf.tv
    subst e
    split
    · split
      · exact ⟨h1.vf (by simp [VF, ncore, abortLeaderTransfer]), t1⟩
      · exact ⟨h1, t1⟩
    · exact ⟨h1, t1⟩

theorem postConfChange_vinv {a r : Raft} {m : Message} (h : VInv a m r)
    (hst : r.state = .follower ∨ a.state ≠ .follower) :
    Res.Post (fun x => VInv a m x.1 ∧ TV r x.1) r.postConfChange :=
  postConfChange_vinv' (fun b hb => h.setPromotable b hb hst)

theorem restore_vinv {a r : Raft} {m : Message} (snap : Snapshot) (h : VInv a m r) :
    Res.Post (fun x => VInv a m x.1 ∧ TV r x.1) (r.restore snap) := by
  unfold restore
  dsimp only
  split
  · exact ⟨h, TV.refl _⟩
  · split
    · split
      · trivial
      · exact ⟨h.becomeFollower _ 0 (by omega), becomeFollower_tv _ _ 0 (by omega)⟩
    · rename_i hfol
      have hfol' : r.state = .follower := by
        apply Classical.byContradiction; intro hc; exact hfol hc
      split
      · exact ⟨h, TV.refl _⟩
      · split
        · trivial
        · trivial
        · split
          · rename_i log hc
            have := C06.commitTo_store hc
            have hf : VF r { r with raftLog := log } := by simp [VF, ncore, this]
            exact ⟨h.vf hf, hf.tv⟩
          · trivial
          · trivial
        · split
          · trivial
          · trivial
          · rename_i log hres
            have hst := C06.restore_store hres
            split
            · trivial
            · rename_i prs _
              -- the tracker replaced by the restored one: the node is a follower
              have h1 : ∀ b, b = Joint.contains prs.voters r.id →
                  VInv a m { ({ ({ r with raftLog := log, prs := r.prs.clear } : Raft) with prs := prs } : Raft) with promotable := b } := by
                intro b hb
                refine ⟨h.id, by show log.store.hardState = _; rw [hst]; exact h.hs, h.tv, Or.inr hb, ?_, h.msgs, ?_, ?_⟩
                · intro hne; exact absurd hfol' hne
                · intro hc; rw [hfol'] at hc; cases hc
                · intro hc; rw [hfol'] at hc; cases hc
              apply Res.post_bind (postConfChange_vinv' h1)
              rintro ⟨r1, cs⟩ ⟨g1, g2⟩
              dsimp only at g1 g2 ⊢
              split
              · trivial
              · split
                · trivial
                · split
                  · trivial
                  · apply Res.post_bind (P := fun _ => True)
                    · exact Res.post_intro (fun _ _ => trivial)
                    · intro b _
                      have hf : VF r1 { r1 with prs := r1.prs.set r1.id b.1, pendingRequestSnapshot := 0 } := by
                        simp [VF, ncore, ProgressTracker.set]
                      exact ⟨g1.vf hf, (TV.trans (TV.of_eq rfl rfl) g2).trans hf.tv⟩

theorem handleSnapshot_vinv {a r : Raft} {m : Message} (m' : Message) (h : VInv a m r) :
    Res.Post (fun x => VInv a m x ∧ TV r x) (r.handleSnapshot m') := by
  unfold handleSnapshot
  apply Res.post_bind (restore_vinv m'.snapshot h)
  rintro ⟨r1, ok⟩ ⟨g1, g2⟩
  dsimp only at g1 g2 ⊢
  split
  · exact Res.post_mono (send_vf r1 _ rfl) (fun x hx => ⟨g1.vf hx, g2.trans hx.tv⟩)
  · exact Res.post_mono (send_vf r1 _ rfl) (fun x hx => ⟨g1.vf hx, g2.trans hx.tv⟩)

end CV
end Raft
end RaftModel
