import RaftProofs.ClusterLogK
import RaftProofs.ClusterConfI

/-!
C09 at the cluster level, second series, part A: **the representation invariant of every node's log
along plain histories** — no `FixedCfg`, no Election Safety, none of the cross-node clauses of
`InitOk`.

`RaftLog.Inv` is not inductive on its own: a delivered `MsgAppend` must be well-numbered with real
terms (`MsgOk`), hence every `MsgAppend` in the transport and in the queues must be, hence every log
entry must carry a non-zero term, hence candidates and leaders must have a non-zero term.  The five
clauses `inv`, `tz`, `wfq`, `wfn`, `nz` of the Log Matching invariant `InvL`
(`RaftProofs/ClusterLogJ.lean`) are closed under the steps by themselves — they never look at
`own` / `agree` / `fresh` / `dur` / `lead` / `orig` — and that sub-invariant is `InvS` here.  The
per-call lemma is `call_lstep` (`RaftProofs/ClusterLogH.lean`); what it REALLY needs: `Inv` of the
node, `batchAppend = false` of the node, `MsgOk` of a delivered `MsgAppend`, `CompactOk` for `compact`.
-/
namespace RaftModel
namespace Cluster
open Node Raft

/-- the part of `InvL` that is inductive without any ownership of terms -/
structure InvS (s : Sys) : Prop where
  inv : ∀ i st, s.node i = some st → st.raft.raftLog.Inv
  tz : ∀ i st, s.node i = some st → (st.raft.state = .candidate ∨ st.raft.state = .leader) →
    st.raft.term ≠ 0
  wfq : ∀ i st x, s.node i = some st → x ∈ st.raft.msgs → x.msgType = .msgAppend →
    ContigFrom (x.index + 1) x.entries
  wfn : ∀ x, x ∈ s.net → x.msgType = .msgAppend → ContigFrom (x.index + 1) x.entries
  nz : ∀ loc g, At s loc g → ∀ i e, g.entryAt i = some e → e.term ≠ 0

theorem InvS.msgOk {s : Sys} (I : InvS s) {m : Message} (hm : m ∈ s.net)
    (hty : m.msgType = .msgAppend) : MsgOk m := by
  have hc := I.wfn m hm hty
  refine ⟨hc, fun e he => ?_⟩
  have hcg : (msgLog m).Contig := hc
  exact I.nz .net (msgLog m) ⟨m, hm, hty, rfl⟩ e.index e (hcg.entryAt_of_mem he)

/-- one transition of node `k` (the shape of `Trans`, without its Log Matching fields) -/
theorem InvS.move {s s' : Sys} {k : Nat} {st st' : NState} {pers : Prop} (I : InvS s)
    (hk : s.node k = some st) (hk' : s'.node k = some st')
    (oth : ∀ j, j ≠ k → s'.node j = s.node j)
    (prov : Prov s s' k st st' pers)
    (rt : RT st.raft st'.raft ∨ st'.raft.state = .follower)
    (inv' : st'.raft.raftLog.Inv)
    (wfq' : ∀ x ∈ st'.raft.msgs, x.msgType = .msgAppend → ContigFrom (x.index + 1) x.entries)
    (wfn' : ∀ x ∈ s'.net, x ∈ s.net ∨ x ∈ st.raft.msgs) : InvS s' := by
  have node' : ∀ j stj', s'.node j = some stj' →
      (j = k ∧ st' = stj') ∨ (j ≠ k ∧ s.node j = some stj') := by
    intro j stj' hj
    by_cases hjk : j = k
    · subst hjk
      rw [hk'] at hj
      cases hj
      exact .inl ⟨rfl, rfl⟩
    · exact .inr ⟨hjk, by rw [← oth j hjk]; exact hj⟩
  have tzk : (st'.raft.state = .candidate ∨ st'.raft.state = .leader) → st'.raft.term ≠ 0 := by
    intro hs
    rcases rt with rt | hf
    · rcases hs with hs | hs
      · rcases rt.cand hs with c | ⟨c1, c2⟩
        · omega
        · rw [← c1]; exact I.tz k st hk (.inl c2)
      · rcases rt.lead hs with c | ⟨c1, c2 | c2⟩
        · omega
        · rw [← c1]; exact I.tz k st hk (.inl c2)
        · rw [← c1]; exact I.tz k st hk (.inr c2)
    · rcases hs with hs | hs <;> rw [hf] at hs <;> cases hs
  refine ⟨?_, ?_, ?_, ?_, ?_⟩
  · intro j stj' hj
    rcases node' j stj' hj with ⟨_, rfl⟩ | ⟨_, h⟩
    · exact inv'
    · exact I.inv j stj' h
  · intro j stj' hj hs
    rcases node' j stj' hj with ⟨_, rfl⟩ | ⟨_, h⟩
    · exact tzk hs
    · exact I.tz j stj' h hs
  · intro j stj' x hj hx hty
    rcases node' j stj' hj with ⟨_, rfl⟩ | ⟨_, h⟩
    · exact wfq' x hx hty
    · exact I.wfq j stj' x h hx hty
  · intro x hx hty
    rcases wfn' x hx with h | h
    · exact I.wfn x h hty
    · exact I.wfq k st x hk h hty
  · intro loc' g' hat i e he
    rcases prov loc' g' hat i e he with ⟨loc, g, hA, hE, _⟩ | ⟨_, hl, ht, _⟩
    · exact I.nz loc g hA i e hE
    · rw [ht]; exact tzk (.inr hl)

/-- a call / a delivery at node `k` -/
theorem InvS.call {s : Sys} (I : InvS s) {k : Nat} {st st' : NState} {rnd : Option Nat}
    {op : NodeOp} {res : OpRes} (hk : s.node k = some st) (hnb : st.raft.batchAppend = false)
    (hop : appOp op = true ∨ ∃ m, op = .step m ∧ m ∈ s.net)
    (hc : ∀ j, op = .compact j → CompactOk st.raft.raftLog j)
    (h : Node.call st rnd op = .ok (res, st')) : InvS (s.setNode k st') := by
  have hop' : op ≠ .drain ∧ ∀ m, op ≠ .rstep m := by
    rcases hop with h1 | ⟨m, h1, _⟩
    · constructor
      · intro hc; rw [hc] at h1; cases h1
      · intro m hc; rw [hc] at h1; cases h1
    · rw [h1]
      exact ⟨(by intro hc; cases hc), (by intro m' hc; cases hc)⟩
  have hw : ∀ m, op = .step m → m.msgType = .msgAppend → MsgOk m := by
    intro m hm hty
    rcases hop with h1 | ⟨m', h1, h2⟩
    · rw [hm] at h1; cases h1
    · rw [hm] at h1; cases h1
      exact I.msgOk h2 hty
  have hL := call_lstep st st' rnd op res (I.inv k st hk) hnb hop' hw hc h
  have hm : (CV.opMsg op).msgType = .msgAppend → CV.opMsg op ∈ s.net := by
    intro hty
    rcases hop with h1 | ⟨m, h1, h2⟩
    · cases op <;> first | (cases h1; done) | (cases hty; done)
    · rw [h1]; exact h2
  refine I.move hk (node_setNode_self s k st') (fun j hj => node_setNode_ne s k j st' hj)
    (prov_node hk hL.eff hm) (.inl hL.rt) hL.eff.inv ?_ (fun x hx => .inl hx)
  intro x hx hty
  rcases hL.eff.q x hx hty with c | c | c
  · exact I.wfq k st x hk c hty
  · exact c.1
  · exact c.1

theorem InvS.send {s : Sys} (I : InvS s) {k : Nat} {st st' : NState} (hk : s.node k = some st)
    (h : Node.call st none .drain = .ok (.ok, st')) :
    InvS { (s.setNode k st') with net := s.net ++ st.raft.msgs } := by
  have hl : st'.raft.raftLog = st.raft.raftLog ∧ st'.raft.msgs = [] ∧ st'.raft.term = st.raft.term ∧
      st'.raft.state = st.raft.state := by
    unfold Node.call at h
    simp only [applyOp] at h
    cases h
    exact ⟨rfl, rfl, rfl, rfl⟩
  obtain ⟨hl1, hl2, hl3, hl4⟩ := hl
  refine I.move (s' := { (s.setNode k st') with net := s.net ++ st.raft.msgs }) hk
    (node_setNode_self s k _) (fun j hj => node_setNode_ne s k j _ hj)
    (prov_send hk hl1 hl2 True trivial) (.inl (RT.rfl.ts hl3 hl4))
    (by rw [hl1]; exact I.inv k st hk) (fun x hx => by rw [hl2] at hx; cases hx)
    (fun x hx => List.mem_append.1 hx)

theorem InvS.restart {s : Sys} (I : InvS s) {k : Nat} {st st' : NState} {c : Config}
    {rnd : Option Nat} (hk : s.node k = some st)
    (h : Node.boot c st.raft.raftLog.store rnd = .ok (.ok st')) : InvS (s.setNode k st') := by
  have hb := CV.boot_booted c _ rnd st' h
  obtain ⟨hinv', habs, hsl⟩ := boot_log c _ rnd st' (I.inv k st hk).storeWF h
  exact I.move hk (node_setNode_self s k st') (fun j hj => node_setNode_ne s k j st' hj)
    (prov_restart hk habs hsl hb.msgs) (.inr hb.state) hinv'
    (fun x hx => by rw [hb.msgs] at hx; cases hx) (fun x hx => .inl hx)

/-- **one contract-abiding step of a non-batching node keeps the invariant** -/
theorem InvS.cstep {s s' : Sys} (I : InvS s) (hnb : NoBatch s) (hstep : CStep s s') : InvS s' := by
  cases hstep with
  | call i st st' rnd op res h1 h2 h3 h4 => exact I.call h1 (hnb i st h1) (.inl h2) h3 h4
  | deliver i st st' rnd m res h1 h2 _ h4 =>
    exact I.call h1 (hnb i st h1) (.inr ⟨m, rfl, h2⟩) (fun j hc => by cases hc) h4
  | send i st st' h1 _ h3 => exact I.send h1 h3
  | restart i st st' c rnd h1 _ h3 => exact I.restart h1 h3

/-- **the initial clause**: every node was booted from a well-formed storage (`MemStorage.WF`:
entries contiguous after the snapshot point) that holds no entry of term 0.  Node-local: nothing
relates the storages of different nodes (the second clause of `InitOk`, and nothing else of it). -/
def InitSto (s : Sys) : Prop :=
  ∀ i st, s.node i = some st → ∃ c sto rnd,
    Node.boot c sto rnd = .ok (.ok st) ∧ sto.WF ∧ ∀ e ∈ sto.entries, e.term ≠ 0

theorem InitOk.initSto {s : Sys} (h : InitOk s) : InitSto s := by
  obtain ⟨_, sto, hboot, hwf, _, _⟩ := h
  intro i st hi
  obtain ⟨c, rnd, hb⟩ := hboot i st hi
  exact ⟨c, sto i, rnd, hb, hwf i st hi⟩

theorem InvS.init {s : Sys} (h0 : Init s) (h : InitSto s) : InvS s := by
  have hnet := h0.1
  have booted : ∀ i st, s.node i = some st → st.raft.state = .follower ∧ st.raft.msgs = [] := by
    intro i st h1
    obtain ⟨c, sto, rnd, hb, _⟩ := h i st h1
    have b := CV.boot_booted c _ rnd st hb
    exact ⟨b.state, b.msgs⟩
  refine ⟨?_, ?_, ?_, ?_, ?_⟩
  · intro i st h1
    obtain ⟨c, sto, rnd, hb, hwf, _⟩ := h i st h1
    exact (boot_log c _ rnd st hwf hb).1
  · intro i st h1 hs
    rw [(booted i st h1).1] at hs
    rcases hs with hs | hs <;> cases hs
  · intro i st x h1 hx
    rw [(booted i st h1).2] at hx
    cases hx
  · intro x hx
    rw [hnet] at hx
    cases hx
  · intro loc g hat i e he
    cases loc with
    | log j =>
      obtain ⟨st, h1, h2⟩ := hat
      obtain ⟨c, sto, rnd, hb, hwf, hnz⟩ := h j st h1
      rw [h2, (boot_log c _ rnd st hwf hb).2.1] at he
      exact hnz e ((storeLog sto).entryAt_mem he)
    | store j =>
      obtain ⟨st, h1, h2⟩ := hat
      obtain ⟨c, sto, rnd, hb, hwf, hnz⟩ := h j st h1
      rw [h2, (boot_log c _ rnd st hwf hb).2.2] at he
      exact hnz e ((storeLog sto).entryAt_mem he)
    | queue j =>
      obtain ⟨st, x, h1, hx, _⟩ := hat
      rw [(booted j st h1).2] at hx
      cases hx
    | net =>
      obtain ⟨x, hx, _⟩ := hat
      rw [hnet] at hx
      cases hx

/-- **`InvS` in every state of a history** whose `compact` calls obey the storage contract, whose
nodes do not batch, and whose initial storages are well-formed -/
theorem invS_hist {h : List Sys} (hh : History h)
    (hcon : ∀ (n : Nat) (a b : Sys), h[n]? = some a → h[n + 1]? = some b → CStep a b)
    (hnb : ∀ s ∈ h, NoBatch s)
    (hinit : ∀ s, h[0]? = some s → InitSto s) :
    ∀ (n : Nat) (s : Sys), h[n]? = some s → InvS s := by
  intro n
  induction n with
  | zero => intro s hs; exact InvS.init (hist_zero_init hh s hs) (hinit s hs)
  | succ n ih =>
    intro s hs
    have hlt : n + 1 < h.length := by
      apply Classical.byContradiction
      intro hc
      rw [List.getElem?_eq_none (by omega)] at hs
      cases hs
    have ha : h[n]? = some h[n] := List.getElem?_eq_getElem (by omega)
    exact (ih _ ha).cstep (hnb _ (List.getElem_mem _)) (hcon n _ s ha hs)

/-- **the representation invariant of every node's log, in every state of a history** -/
theorem logInv_hist {h : List Sys} (hh : History h)
    (hcon : ∀ (n : Nat) (a b : Sys), h[n]? = some a → h[n + 1]? = some b → CStep a b)
    (hnb : ∀ s ∈ h, NoBatch s)
    (hinit : ∀ s, h[0]? = some s → InitSto s) :
    ∀ s ∈ h, ∀ i st, s.node i = some st → st.raft.raftLog.Inv := by
  intro s hs i st hi
  obtain ⟨n, hn⟩ := List.mem_iff_getElem?.1 hs
  exact (invS_hist hh hcon hnb hinit n s hn).inv i st hi

/-- **`LogOk` in every state of a history**: the representation invariant comes from `logInv_hist`;
the apply cursors are a hypothesis (`happ`) — `applied ≤ last_index` is NOT an invariant of plain
histories: `Raft::new` takes `Config.applied` unchecked (`RaftProps.PDGuards.PD_restart_gap`), at the
initial boot and at every `restart`. -/
theorem logOk_hist {h : List Sys} (hh : History h)
    (hcon : ∀ (n : Nat) (a b : Sys), h[n]? = some a → h[n + 1]? = some b → CStep a b)
    (hnb : ∀ s ∈ h, NoBatch s)
    (hinit : ∀ s, h[0]? = some s → InitSto s)
    (happ : ∀ s ∈ h, ∀ i st, s.node i = some st →
      st.raft.raftLog.applied ≤ st.raft.raftLog.lastIndex) :
    ∀ s ∈ h, LogOk s :=
  fun s hs i st hi => ⟨logInv_hist hh hcon hnb hinit s hs i st hi, happ s hs i st hi⟩

end Cluster
end RaftModel
