import RaftProofs.ClusterReadI

/-!
Cluster-level ReadIndex safety, part J: **a request context occurs only after it was registered**
(`occ_issued`).
-/
namespace RaftModel
namespace Cluster
open Node Raft Raft.CC Raft.RD RaftProps.C02 RaftProps.C05

variable {cfg : JointConfig} {c0 : Nat} {h : List Sys}

/-- the context `K` occurs at node state `st` -/
def OccN (st : NState) (K : Bytes) : Prop :=
  (∃ rs, (K, rs) ∈ st.raft.readOnly.pendingReadIndex) ∨ K ∈ st.raft.readOnly.readIndexQueue ∨
  (∃ x ∈ st.raft.msgs, rdT x.msgType = true ∧ x.context = K) ∨
  (∃ x ∈ st.raft.readStates, x.requestCtx = K)

/-- the context `K` occurs in the state `s`: pending or queued at a node, in a heartbeat or heartbeat
response of a queue or of the transport, or in a read state -/
def Occ (s : Sys) (K : Bytes) : Prop :=
  (∃ v st, s.node v = some st ∧ OccN st K) ∨ ∃ x ∈ s.net, rdT x.msgType = true ∧ x.context = K

/-- `K` was registered by a step before index `k` -/
def Issued (h : List Sys) (k : Nat) (K : Bytes) : Prop := ∃ n i, n < k ∧ RegAt h n i K

theorem Issued.mono {k k' : Nat} {K : Bytes} (hi : Issued h k K) (hle : k ≤ k') : Issued h k' K := by
  obtain ⟨n, i, h1, h2⟩ := hi
  exact ⟨n, i, by omega, h2⟩

theorem occ_issued (H : RdHyp cfg c0 h) : ∀ (k : Nat) (s : Sys), h[k]? = some s →
    ∀ K, K ≠ [] → Occ s K → Issued h k K := by
  have H2 := H.toHyp3w.toHyp2w
  refine hist_induct h _ ?_ ?_
  · intro s h0 K _ hocc
    exfalso
    have hinit := hist_init H2.hist s h0
    rcases hocc with ⟨v, st, hv, ho⟩ | ⟨x, hx, _⟩
    · obtain ⟨c, store, rnd, _, hb⟩ := hinit.2 v st hv
      obtain ⟨f1, f2, f3⟩ := boot_fresh c store rnd st hb
      have f4 := (CV.boot_booted c store rnd st hb).msgs
      rcases ho with ⟨rs, g⟩ | g | ⟨x, g, _⟩ | ⟨x, g, _⟩
      · rw [f1] at g; cases g
      · rw [f2] at g; cases g
      · rw [f4] at g; cases g
      · rw [f3] at g; cases g
    · rw [hinit.1] at hx; cases hx
  · intro n a b ha hb ih K hK hocc
    have up : Occ a K → Issued h (n + 1) K := fun g => (ih K hK g).mono (Nat.le_succ n)
    have PA := pend_ok H n a ha
    cases rd_step H ha hb with
    | call k st st' m hk hbe hm ho =>
      subst hbe
      rcases hocc with ⟨v, stv, hv, hoc⟩ | ⟨x, hx, g⟩
      · rcases node_cases hv with ⟨e1, e2⟩ | ⟨_, e2⟩
        · subst e1; subst e2
          apply up
          rcases hoc with ⟨rs, g⟩ | g | ⟨x, g1, g2, g3⟩ | ⟨x, g1, g2⟩
          · obtain ⟨_, ⟨rs0, q, _⟩, _⟩ := ho.pend K rs g
            exact .inl ⟨v, st, hk, .inl ⟨rs0, q⟩⟩
          · obtain ⟨d, hd⟩ := ho.queue
            rw [hd] at g
            exact .inl ⟨v, st, hk, .inr (.inl (List.mem_of_mem_drop g))⟩
          · rcases ho.msgs x g1 with c | c | c | c
            · exact .inl ⟨v, st, hk, .inr (.inr (.inl ⟨x, c, g2, g3⟩))⟩
            · rw [c] at g2; cases g2
            · rcases c.2 with c | c
              · exact absurd (g3.symm.trans c) hK
              · rw [g3] at c; exact .inl ⟨v, st, hk, .inr (.inl c)⟩
            · rcases hm with q | ⟨q, _⟩
              · rw [c.2.1] at q; cases q
              · exact .inr ⟨m, q, by rw [c.2.1]; rfl, c.2.2.1.symm.trans g3⟩
          · rcases ho.rst x g1 with c | c | ⟨K0, rs0, _, _, _, _, c1, c2, _⟩
            · exact .inl ⟨v, st, hk, .inr (.inr (.inr ⟨x, c, g2⟩))⟩
            · exfalso
              rcases hm with q | ⟨q, _⟩
              · rw [c] at q; cases q
              · exact H.norir a (mem_of_get ha) m q c
            · have := (PA.req v st hk K0 rs0 c1).1
              rw [c2] at this
              injection this with this
              rw [g2] at this
              exact .inl ⟨v, st, hk, .inl ⟨rs0, by rw [this]; exact c1⟩⟩
        · exact up (.inl ⟨v, stv, e2, hoc⟩)
      · exact up (.inr ⟨x, hx, g⟩)
    | read k st st' K' rnd res hk hbe hcall ho =>
      subst hbe
      rcases hocc with ⟨v, stv, hv, hoc⟩ | ⟨x, hx, g⟩
      · rcases node_cases hv with ⟨e1, e2⟩ | ⟨_, e2⟩
        · subst e1; subst e2
          cases ho with
          | frame hf =>
            apply up
            refine .inl ⟨v, st, hk, ?_⟩
            rcases hoc with ⟨rs, g⟩ | g | ⟨x, g1, g2, g3⟩ | ⟨x, g1, g2⟩
            · rw [hf.ro] at g; exact .inl ⟨rs, g⟩
            · rw [hf.ro] at g; exact .inr (.inl g)
            · have : x ∈ rdOf stv.raft.msgs := mem_rdOf.2 ⟨g1, g2⟩
              rw [hf.rd] at this
              exact .inr (.inr (.inl ⟨x, (mem_rdOf.1 this).1, g2, g3⟩))
            · rw [hf.rs] at g1; exact .inr (.inr (.inr ⟨x, g1, g2⟩))
          | now hs =>
            exfalso
            rcases hs with c | c
            · rw [not_singleton H2 (mem_of_get ha) hk] at c; cases c
            · exact c (H.safe a (mem_of_get ha) v st hk)
          | reg hl hc ro hadd hcore hmsgs =>
            have e1 : stv.raft.readOnly = ro := congrArg RCore.ro hcore
            have e3 : stv.raft.readStates = st.raft.readStates := congrArg RCore.rs hcore
            -- `K'` is pending after the call: it was pending before, or this call registers it
            have hK' : K = K' → Issued h (n + 1) K := by
              intro e
              subst e
              rcases addRequest_spec hadd with ⟨_, rs, q2⟩ | ⟨q1, _, q3, _⟩
              · exact up (.inl ⟨v, st, hk, .inl ⟨rs, q2⟩⟩)
              · refine ⟨n, v, Nat.lt_succ_self n, a, _, st, stv, rnd, res, ha, hb, hk, hcall, rfl, q1, ?_⟩
                rw [e1, q3]
                exact ⟨_, List.mem_append_right _ (List.mem_singleton.2 rfl)⟩
            rcases hoc with ⟨rs, g⟩ | g | ⟨x, g1, g2, g3⟩ | ⟨x, g1, g2⟩
            · rw [e1] at g
              rcases addRequest_spec hadd with ⟨q1, _⟩ | ⟨_, _, q3, _⟩
              · rw [q1] at g; exact up (.inl ⟨v, st, hk, .inl ⟨rs, g⟩⟩)
              · rw [q3] at g
                rcases List.mem_append.1 g with g | g
                · exact up (.inl ⟨v, st, hk, .inl ⟨rs, g⟩⟩)
                · rw [List.mem_singleton] at g
                  injection g with g
                  exact hK' g
            · rw [e1] at g
              rcases addRequest_spec hadd with ⟨q1, _⟩ | ⟨_, _, _, q4⟩
              · rw [q1] at g; exact up (.inl ⟨v, st, hk, .inr (.inl g)⟩)
              · rw [q4] at g
                rcases List.mem_append.1 g with g | g
                · exact up (.inl ⟨v, st, hk, .inr (.inl g)⟩)
                · exact hK' (List.mem_singleton.1 g)
            · rcases hmsgs x g1 with c | ⟨_, c⟩
              · exact up (.inl ⟨v, st, hk, .inr (.inr (.inl ⟨x, c, g2, g3⟩))⟩)
              · exact hK' (g3.symm.trans c)
            · rw [e3] at g1
              exact up (.inl ⟨v, st, hk, .inr (.inr (.inr ⟨x, g1, g2⟩))⟩)
        · exact up (.inl ⟨v, stv, e2, hoc⟩)
      · exact up (.inr ⟨x, hx, g⟩)
    | send k st st' hk hbe hst =>
      subst hbe
      apply up
      rcases hocc with ⟨v, stv, hv, hoc⟩ | ⟨x, hx, g⟩
      · have hv' : (a.setNode k st').node v = some stv := hv
        rcases node_cases hv' with ⟨e1, e2⟩ | ⟨_, e2⟩
        · subst e1; subst e2
          refine .inl ⟨v, st, hk, ?_⟩
          unfold OccN at hoc
          rw [hst] at hoc
          rcases hoc with ⟨rs, g⟩ | g | ⟨x, g1, _⟩ | ⟨x, g1, _⟩
          · exact .inl ⟨rs, g⟩
          · exact .inr (.inl g)
          · cases g1
          · cases g1
        · exact .inl ⟨v, stv, e2, hoc⟩
      · have hx' : x ∈ a.net ++ st.raft.msgs := hx
        rcases List.mem_append.1 hx' with c | c
        · exact .inr ⟨x, c, g⟩
        · exact .inl ⟨k, st, hk, .inr (.inr (.inl ⟨x, c, g⟩))⟩
    | restart k st st' hk hbe hf hq =>
      subst hbe
      apply up
      rcases hocc with ⟨v, stv, hv, hoc⟩ | ⟨x, hx, g⟩
      · rcases node_cases hv with ⟨e1, e2⟩ | ⟨_, e2⟩
        · subst e1; subst e2
          exfalso
          rcases hoc with ⟨rs, g⟩ | g | ⟨x, g, _⟩ | ⟨x, g, _⟩
          · rw [hf.1] at g; cases g
          · rw [hf.2.1] at g; cases g
          · rw [hq] at g; cases g
          · rw [hf.2.2] at g; cases g
        · exact .inl ⟨v, stv, e2, hoc⟩
      · exact .inr ⟨x, hx, g⟩

end Cluster
end RaftModel
