import RaftProofs.ClusterRead4E

/-!
Cluster-level ReadIndex safety, helper lemmas part F: `RInv` through the arms of `step`, `step` itself
(for every message that is neither a `MsgReadIndex` nor a `MsgSnapshot`), `tick`, the `RawNode`
wrappers and `apply_conf_change` (the structure follows `RaftProofs/ClusterVoteE.lean`).
-/
namespace RaftModel
namespace Raft
namespace RD
namespace R4
open VoteOb

/-- message types that play no part in the read path (as input of a call) -/
def plainT : MsgType → Bool
  | .msgHeartbeat | .msgHeartbeatResponse | .msgReadIndexResp => false
  | _ => true

theorem AckOk.retag {a : Raft} {m1 m2 : Message} {K : Bytes} {u : Nat}
    (hp : plainT m1.msgType = true) (h : AckOk a m1 K u) : AckOk a m2 K u := by
  rcases h with c | c | c
  · exact .inl c
  · rw [c.1] at hp; cases hp
  · exact .inr (.inr c)

/-- the tag of a call may be changed when the old one plays no part in the read path -/
theorem RInv.retag {a r : Raft} {m1 m2 : Message} (h : RInv a m1 r)
    (hp : plainT m1.msgType = true) : RInv a m2 r := by
  refine ⟨h.id, h.tle, h.opt, ?_, h.queue, h.conf, ?_, ?_⟩
  · intro K rs hm
    obtain ⟨k1, k2, k3⟩ := h.pend K rs hm
    exact ⟨k1, k2, fun u hu => (k3 u hu).retag hp⟩
  · intro x hx
    rcases h.rst x hx with c | c | ⟨K, rs0, Kack, acks, p, i, c1, c2, c3, c4, c5, c6, c7, c8, c9⟩
    · exact .inl c
    · rw [c] at hp; cases hp
    · exact .inr (.inr ⟨K, rs0, Kack, acks, p, i, c1, c2, c3, c4, c5, c6, c7, c8,
        fun u hu => (c9 u hu).retag hp⟩)
  · intro x hx
    rcases h.msgs x hx with c | c | c | c | ⟨c0, K, rs0, Kack, acks, p, i, c1, c2, c3, c4, c5, c6, c7, c8, c9⟩
    · exact .inl c
    · exact .inr (.inl c)
    · exact .inr (.inr (.inl c))
    · rw [c.2.1] at hp; cases hp
    · exact .inr (.inr (.inr (.inr ⟨c0, K, rs0, Kack, acks, p, i, c1, c2, c3, c4, c5, c6, c7, c8,
        fun u hu => (c9 u hu).retag hp⟩)))

/-! ### the role arms -/

theorem stepCandidate_rinv {a r : Raft} {m : Message} (h : RInv a m r)
    (hsn : m.msgType ≠ .msgSnapshot) :
    Res.Post (fun x => RInv a m x.1) (r.stepCandidate m) := by
  have hp : Res.Post (fun x => RInv a m x.1)
      ((r.poll m.frm m.msgType (!m.reject)).bind (fun (r, _) =>
        (r.maybeCommitByVote m).bind (fun r => (.ok (r, none) : Res (Raft × Option RaftError))))) := by
    apply Res.post_bind (poll_rs r m.frm m.msgType (!m.reject))
    rintro ⟨r1, res⟩ g1
    exact Res.post_bind (maybeCommitByVote_rs r1 m) (fun b hb => (h.rs g1).rs hb)
  unfold stepCandidate
  split
  · exact h
  · split
    · trivial
    · rename_i ht
      have ht' : r.term ≤ m.term := by
        have : r.term = m.term := by
          apply Classical.byContradiction; intro hc; exact ht hc
        omega
      exact Res.post_bind (handleAppendEntries_rf _ m) (fun b hb =>
        (h.rs (becomeFollower_rs r m.term m.frm ht')).rf hb)
  · rename_i hty
    split
    · trivial
    · rename_i ht
      have ht' : r.term ≤ m.term := by
        have : r.term = m.term := by
          apply Classical.byContradiction; intro hc; exact ht hc
        omega
      exact Res.post_bind (handleHeartbeat_rinv (h.rs (becomeFollower_rs r m.term m.frm ht')) hty)
        (fun b hb => hb)
  · rename_i hty
    exact absurd hty hsn
  · split
    · exact h
    · split
      · exact h
      · exact hp
  · split
    · exact h
    · split
      · exact h
      · exact hp
  · exact h

theorem stepFollower_rinv {a r : Raft} {m : Message} (h : RInv a m r)
    (hri : m.msgType ≠ .msgReadIndex) (hsn : m.msgType ≠ .msgSnapshot) :
    Res.Post (fun x => RInv a m x.1) (r.stepFollower m) := by
  unfold stepFollower
  split
  · rename_i hty
    split
    · exact h
    · split
      · exact h
      · exact Res.post_bind (send_rf r _ (by simp [hty, rdT])) (fun b hb => h.rf hb)
  · exact Res.post_bind (handleAppendEntries_rf _ m) (fun b hb =>
      (h.rf (by simp [RF, rcore])).rf hb)
  · rename_i hty
    exact Res.post_bind (handleHeartbeat_rinv (h.rf (by simp [RF, rcore])) hty) (fun b hb => hb)
  · rename_i hty
    exact absurd hty hsn
  · rename_i hty
    split
    · exact h
    · exact Res.post_bind (send_rf r _ (by simp [hty, rdT])) (fun b hb => h.rf hb)
  · split
    · exact Res.post_bind (hup_rs r true) (fun b hb => h.rs hb)
    · exact h
  · rename_i hty
    exact absurd hty hri
  · rename_i hty
    split
    · dsimp only
      split
      · rename_i log _ hmc
        simp only [Res.Post]
        refine ⟨h.id, h.tle, h.opt, h.pend, h.queue, h.conf, fun x hx => ?_, h.msgs⟩
        exact .inr (.inl hty)
      · trivial
      · trivial
    · exact h
  · exact h

theorem stepLeader_rinv {a r : Raft} {m : Message} (h : RInv a m r)
    (hri : m.msgType ≠ .msgReadIndex)
    (hmt : m.msgType = .msgHeartbeatResponse → m.term = 0 ∨ m.term = r.term) :
    Res.Post (fun x => RInv a m x.1) (r.stepLeader m) := by
  unfold stepLeader
  split
  · exact Res.post_bind (bcastHeartbeat_rinv h) (fun b hb => hb)
  · have h1 := h.rf (checkQuorumActive_rf r)
    generalize r.checkQuorumActive = p at h1 ⊢
    obtain ⟨r1, active⟩ := p
    dsimp only at h1 ⊢
    split
    · exact h1.rs (becomeFollower_rs _ _ 0 (Nat.le_refl _))
    · exact h1
  · split
    · trivial
    · split
      · exact h
      · split
        · exact h
        · have h1 := h.rf (filterProposal_rf m.entries r 0)
          generalize r.filterProposal 0 m.entries = p at h1 ⊢
          obtain ⟨r1, oes⟩ := p
          dsimp only at h1 ⊢
          split
          · rename_i r2 heq
            cases heq
            exact h1
          · rename_i r2 es heq
            cases heq
            split
            · rename_i r3 heq2
              exact h1.rf (Res.Post.of_eq (P := fun x => RF _ x.1) (appendEntry_rf _ _) heq2)
            · rename_i r3 heq2
              have h2 := h1.rf (Res.Post.of_eq (P := fun x => RF _ x.1) (appendEntry_rf _ _) heq2)
              exact Res.post_bind (bcastAppend_rf r3) (fun b hb => h2.rf hb)
            · trivial
            · trivial
  · rename_i hty
    exact absurd hty hri
  · exact Res.post_bind (handleAppendResponse_rf r m) (fun b hb => h.rf hb)
  · rename_i hty
    exact Res.post_bind (handleHeartbeatResponse_rinv h hty (hmt hty)) (fun b hb => hb)
  · exact h.rf (handleSnapshotStatus_rf r m)
  · exact h.rf (handleUnreachable_rf r m)
  · exact Res.post_bind (handleTransferLeader_rf r m) (fun b hb => h.rf hb)
  · exact h

/-! ### the term preamble and the vote arm -/

theorem stepTerm_rs (r : Raft) (m : Message) :
    Res.Post (fun x => RS r x.1 ∧
        (x.2 = true → m.msgType = .msgHeartbeatResponse → m.term = 0 ∨ m.term = x.1.term))
      (r.stepTerm m) := by
  unfold stepTerm
  split
  · rename_i h0
    exact ⟨RS.refl _, fun _ _ => Or.inl h0⟩
  · split
    · rename_i hlt
      dsimp only
      split
      · exact ⟨RS.refl _, fun hc => by cases hc⟩
      · split
        · rename_i hpv
          refine ⟨RS.refl _, fun _ hty => ?_⟩
          rcases hpv with g | ⟨g, _⟩ <;> rw [hty] at g <;> cases g
        · split
          · exact ⟨becomeFollower_rs r m.term m.frm (by omega),
              fun _ _ => Or.inr (becomeFollower_term_vote r m.term m.frm).1.symm⟩
          · exact ⟨becomeFollower_rs r m.term 0 (by omega),
              fun _ _ => Or.inr (becomeFollower_term_vote r m.term 0).1.symm⟩
    · split
      · split
        · split
          · rename_i r1 heq
            exact ⟨(Res.Post.of_eq (P := fun x => RF r x) (send_rf r _ (by simp [newMessage, rdT])) heq).toRS,
              fun hc => by cases hc⟩
          · trivial
          · trivial
        · split
          · split
            · rename_i r1 heq
              exact ⟨(Res.Post.of_eq (P := fun x => RF r x) (send_rf r _ rfl) heq).toRS,
                fun hc => by cases hc⟩
            · trivial
            · trivial
          · exact ⟨RS.refl _, fun hc => by cases hc⟩
      · rename_i h1 h2 h3
        refine ⟨RS.refl _, fun _ _ => Or.inr ?_⟩
        show m.term = r.term
        omega

theorem stepVote_rs (r : Raft) (m : Message) :
    Res.Post (fun x => RS r x) (r.stepVote m) := by
  unfold stepVote
  split
  · trivial
  · rename_i respType hrt
    have hrd : rdT respType = false := by
      unfold voteRespMsgType at hrt
      split at hrt
      · cases hrt; rfl
      · cases hrt; rfl
      · cases hrt
    split
    · unfold stepVoteGrant
      split
      · rename_i r1 heq
        have h1 := Res.Post.of_eq (P := fun x => RF r x) (send_rf r _ hrd) heq
        split
        · exact (h1.trans (by simp [RF, rcore])).toRS
        · exact h1.toRS
      · trivial
      · trivial
    · unfold stepVoteReject
      split
      · trivial
      · trivial
      · split
        · rename_i r1 heq
          have h1 := Res.Post.of_eq (P := fun x => RF r x) (send_rf r _ hrd) heq
          split
          · exact Res.post_mono (maybeCommitByVote_rs r1 m) (fun x hx => h1.toRS.trans hx)
          · exact h1.toRS
        · trivial
        · trivial
    · trivial
    · trivial

/-! ### `step`, `tick`, the wrappers -/

theorem step_rinv {a r : Raft} {m : Message} (h : RInv a m r)
    (hri : m.msgType ≠ .msgReadIndex) (hsn : m.msgType ≠ .msgSnapshot) :
    Res.Post (fun x => RInv a m x.1) (r.step m) := by
  unfold step
  have hst := stepTerm_rs r m
  split
  · trivial
  · trivial
  · rename_i r1 heq
    exact h.rs (Res.Post.of_eq hst heq).1
  · rename_i r1 heq
    obtain ⟨h1, ht⟩ := Res.Post.of_eq hst heq
    dsimp only at h1 ht
    have h1' := h.rs h1
    split
    · exact Res.post_bind (hup_rs r1 false) (fun b hb => h1'.rs hb)
    · have := stepVote_rs r1 m
      split
      · rename_i r2 heq2
        exact h1'.rs (Res.Post.of_eq this heq2)
      · trivial
      · trivial
    · have := stepVote_rs r1 m
      split
      · rename_i r2 heq2
        exact h1'.rs (Res.Post.of_eq this heq2)
      · trivial
      · trivial
    · split
      · exact stepCandidate_rinv h1' hsn
      · exact stepCandidate_rinv h1' hsn
      · exact stepFollower_rinv h1' hri hsn
      · exact stepLeader_rinv h1' hri (fun hq => ht rfl hq)

theorem stepIgnore_rinv {a r : Raft} {m : Message} (h : RInv a m r)
    (hri : m.msgType ≠ .msgReadIndex) (hsn : m.msgType ≠ .msgSnapshot) :
    Res.Post (fun x => RInv a m x) (r.stepIgnore m) := by
  unfold stepIgnore
  exact Res.post_bind (step_rinv h hri hsn) (fun b hb => hb)

open CV in
theorem tickElection_rinv (a : Raft) :
    Res.Post (fun x => RInv a mLocal x.1) a.tickElection := by
  unfold tickElection
  dsimp only
  have h0 : RInv a mLocal { a with electionElapsed := a.electionElapsed + 1 } :=
    (RInv.refl a mLocal).rf (by simp [RF, rcore])
  split
  · exact h0
  · have h1 : RInv a (newMessage 0 .msgHup (some a.id))
        ({ ({ a with electionElapsed := a.electionElapsed + 1 } : Raft) with electionElapsed := 0 } : Raft) :=
      (RInv.refl a _).rf (by simp [RF, rcore])
    exact Res.post_bind (stepIgnore_rinv h1 (by simp [newMessage]) (by simp [newMessage]))
      (fun b hb => hb.retag rfl)

open CV in
theorem tickHeartbeat_rinv (a : Raft) :
    Res.Post (fun x => RInv a mLocal x.1) a.tickHeartbeat := by
  unfold tickHeartbeat
  dsimp only
  have h0 : RInv a mLocal ({ a with heartbeatElapsed := a.heartbeatElapsed + 1, electionElapsed := a.electionElapsed + 1 } : Raft) :=
    (RInv.refl a mLocal).rf (by simp [RF, rcore])
  apply Res.post_bind (P := fun x => RInv a mLocal x.1)
  · split
    · apply Res.post_bind (P := fun x => RInv a mLocal x.1)
      · split
        · have h1 : RInv a (newMessage 0 .msgCheckQuorum (some a.id))
              ({ ({ a with heartbeatElapsed := a.heartbeatElapsed + 1, electionElapsed := a.electionElapsed + 1 } : Raft) with electionElapsed := 0 } : Raft) :=
            (RInv.refl a _).rf (by simp [RF, rcore])
          exact Res.post_bind (stepIgnore_rinv h1 (by simp [newMessage]) (by simp [newMessage]))
            (fun b hb => hb.retag rfl)
        · exact h0.rf (by simp [RF, rcore])
      · rintro ⟨r1, b⟩ g
        dsimp only at g ⊢
        split
        · exact g.rf (by simp [RF, rcore, abortLeaderTransfer])
        · exact g
    · exact h0
  · rintro ⟨r1, b⟩ g
    dsimp only at g ⊢
    split
    · exact g
    · split
      · have h1 : RInv a (newMessage 0 .msgBeat (some r1.id)) ({ r1 with heartbeatElapsed := 0 } : Raft) :=
          (g.retag rfl).rf (by simp [RF, rcore])
        exact Res.post_bind (stepIgnore_rinv h1 (by simp [newMessage]) (by simp [newMessage]))
          (fun b hb => hb.retag rfl)
      · exact g

open CV in
theorem tick_rinv (a : Raft) : Res.Post (fun x => RInv a mLocal x.1) a.tick := by
  unfold tick
  split
  · exact tickElection_rinv a
  · exact tickElection_rinv a
  · exact tickElection_rinv a
  · exact tickHeartbeat_rinv a

theorem rawStep_rinv (a : Raft) (m : Message)
    (hri : m.msgType ≠ .msgReadIndex) (hsn : m.msgType ≠ .msgSnapshot) :
    Res.Post (fun x => RInv a m x.1) (RawNode.step a m) := by
  unfold RawNode.step
  split
  · exact RInv.refl a m
  · split
    · exact step_rinv (RInv.refl a m) hri hsn
    · exact RInv.refl a m

open CV in
/-- `step` / `step_ignore` of a message the application builds itself -/
theorem localStep_rinv (a : Raft) (m : Message) (hp : plainT m.msgType = true)
    (hri : m.msgType ≠ .msgReadIndex) (hsn : m.msgType ≠ .msgSnapshot) :
    Res.Post (fun x => RInv a mLocal x.1) (a.step m) :=
  Res.post_mono (step_rinv (RInv.refl a m) hri hsn) (fun _ hx => hx.retag hp)

open CV in
theorem localStepIgnore_rinv (a : Raft) (m : Message) (hp : plainT m.msgType = true)
    (hri : m.msgType ≠ .msgReadIndex) (hsn : m.msgType ≠ .msgSnapshot) :
    Res.Post (fun x => RInv a mLocal x) (a.stepIgnore m) :=
  Res.post_mono (stepIgnore_rinv (RInv.refl a m) hri hsn) (fun _ hx => hx.retag hp)

end R4
end RD
end Raft
end RaftModel
