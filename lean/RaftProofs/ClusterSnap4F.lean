import RaftProofs.ClusterSnap4E

/-!
(Copy of `ClusterCommit4F` for the relation `Raft.CS.PW` of `ClusterSnap4A`: no `QSnap` escape, the
`Snapshot` state allowed.)

Cluster-level commit safety, part 4F: the result of a call (`PR`), "nothing of the relation's types
queued yet" (`NF`), and `PW` through the candidate / follower side: elections, the vote arm, the
follower handlers, the term preamble, and `Raft::step`.
-/
namespace RaftModel
namespace Raft
namespace CS
open RaftProps.C13

/-- what a call leaves (the relation without the bookkeeping on the log) -/
structure PR (a r : Raft) : Prop where
  po : r.state = .leader → QSnap r.msgs ∨ PAll r.msgs r.raftLog.lastIndex r.prs
  rd : r.state = .leader → ∀ p ∈ r.readOnly.pendingReadIndex, p.2.index ≤ r.raftLog.committed
  qa : ∀ x ∈ r.msgs, x.msgType = .msgAppend →
    x ∈ a.msgs ∨ QSnap r.msgs ∨ x.index ≤ r.raftLog.lastIndex
  qr : ∀ x ∈ r.msgs, x.msgType = .msgReadIndexResp → x ∈ a.msgs ∨ x.index ≤ r.raftLog.committed
  sn : ∀ x ∈ a.msgs, x.msgType = .msgSnapshot → x ∈ r.msgs
  /-- every new `MsgAppend` is anchored at or above the snapshot point the log had when the call
  started (or the queue is poisoned) -/
  qf : ∀ x ∈ r.msgs, x.msgType = .msgAppend →
    x ∈ a.msgs ∨ QSnap r.msgs ∨ a.raftLog.firstIndex ≤ x.index + 1

theorem PW.pr {a r : Raft} (h : PW a r) : PR a r := ⟨h.po, h.rd, h.qa, h.qr, h.sn, h.qf⟩

/-- nothing of the relation's message types has been queued since `a`, and no queued `MsgSnapshot` is
lost -/
structure NF (a r : Raft) : Prop where
  old : ∀ x ∈ r.msgs, wqT x.msgType = true → x ∈ a.msgs
  sn : ∀ x ∈ a.msgs, x.msgType = .msgSnapshot → x ∈ r.msgs

theorem NF.rfl {a : Raft} : NF a a := ⟨fun _ hx _ => hx, fun _ hx _ => hx⟩

theorem NF.of_msgs {a r r' : Raft} (h : NF a r) (hm : r'.msgs = r.msgs) : NF a r' :=
  ⟨by rw [hm]; exact h.old, by rw [hm]; exact h.sn⟩

theorem NF.push {a r r' : Raft} (h : NF a r) {x : Message} (hm : r'.msgs = r.msgs ++ [x])
    (hx : wqT x.msgType = false) : NF a r' := by
  refine ⟨fun y hy hty => ?_, fun y hy hty => by rw [hm]; exact List.mem_append_left _ (h.sn y hy hty)⟩
  rw [hm] at hy
  rcases List.mem_append.1 hy with c | c
  · exact h.old y c hty
  · rw [List.mem_singleton.1 c, hx] at hty; cases hty

theorem NF.send {a r r' : Raft} {m : Message} (h : NF a r) (hs : r.send m = .ok r')
    (hx : wqT m.msgType = false) : NF a r' :=
  h.push (by rw [send_eq _ _ _ hs]) (by rw [sendFill_msgType]; exact hx)

theorem NF.pr {a r : Raft} (h : NF a r) (hs : r.state ≠ .leader) : PR a r :=
  ⟨fun c => absurd c hs, fun c => absurd c hs,
   fun x hx hty => .inl (h.old x hx (by rw [hty]; rfl)),
   fun x hx hty => .inl (h.old x hx (by rw [hty]; rfl)), h.sn,
   fun x hx hty => .inl (h.old x hx (by rw [hty]; rfl))⟩

/-! ### elections -/

theorem sendVoteRequests_pw {a r r' : Raft} {ct : CampaignType} {vm : MsgType} {t : Nat}
    (hvm : wqT vm = false) (h : r.sendVoteRequests ct vm t = .ok r') (h0 : PW a r) : PW a r' := by
  unfold Raft.sendVoteRequests at h
  split at h
  · cases h
  · cases h
  · split at h
    · cases h
    · cases h
    · refine foldl_pres (PW a) _ ?_ _ _ h (by intro r1 e; cases e; exact h0)
      intro acc id r1 h1
      cases acc with
      | err e => cases h1
      | panic s => cases h1
      | ok r0 =>
        refine ⟨r0, rfl, fun h0 => ?_⟩
        change (if id = r0.id then Res.ok r0 else _) = _ at h1
        split at h1
        · cases h1; exact h0
        · exact send_pw h1 hvm h0

theorem recordVote_progress (t : ProgressTracker) (id : Nat) (v : Bool) :
    (t.recordVote id v).progress = t.progress := by
  unfold ProgressTracker.recordVote
  split <;> rfl

theorem pollWith_pw {a r r' : Raft} {onPreWin : Raft → Res Raft} {frm : Nat} {t : MsgType}
    {v : Bool} {res : VoteResult}
    (hpre : ∀ r r', onPreWin r = .ok r' → PW a r → PW a r')
    (h : pollWith onPreWin r frm t v = .ok (r', res)) (h0 : PW a r) : PW a r' := by
  unfold Raft.pollWith at h
  have h1 : PW a { r with prs := r.prs.recordVote frm v } := by
    refine h0.prs (fun hs => ?_)
    rcases h0.po hs with c | c
    · exact .inl c
    · right
      intro p hp
      rw [recordVote_progress] at hp
      exact c p hp
  simp only [] at h
  split at h
  · split at h
    · rw [Res.bind_eq_ok_iff] at h
      obtain ⟨r2, h2, h3⟩ := h
      cases h3
      exact hpre _ _ h2 h1
    · rw [Res.bind_eq_ok_iff] at h
      obtain ⟨r2, h2, h3⟩ := h
      cases h3
      rw [Res.bind_eq_ok_iff] at h2
      obtain ⟨r3, h4, h5⟩ := h2
      exact (bcastAppend_lw h5 (becomeLeader_lw h4 h1)).1
  · cases h; exact becomeFollower_pw _ _ h1
  · cases h; exact h1

theorem campaignWith_pw {a r r' : Raft}
    {poll : Raft → Nat → MsgType → Bool → Res (Raft × VoteResult)} {ct : CampaignType}
    (hpoll : ∀ r frm t v r' res, poll r frm t v = .ok (r', res) → PW a r → PW a r')
    (h : campaignWith poll r ct = .ok r') (h0 : PW a r) : PW a r' := by
  unfold Raft.campaignWith at h
  rw [Res.bind_eq_ok_iff] at h
  obtain ⟨⟨r1, vm, term⟩, h1, h2⟩ := h
  have g1 : PW a r1 ∧ wqT vm = false := by
    split at h1
    · rw [Res.bind_eq_ok_iff] at h1
      obtain ⟨r2, h3, h4⟩ := h1
      split at h4
      · cases h4
      · cases h4; exact ⟨(becomePreCandidate_pw h3 h0).1, rfl⟩
    · rw [Res.bind_eq_ok_iff] at h1
      obtain ⟨r2, h3, h4⟩ := h1
      cases h4; exact ⟨(becomeCandidate_pw h3 h0).1, rfl⟩
  dsimp only at h2
  rw [Res.bind_eq_ok_iff] at h2
  obtain ⟨⟨r3, res⟩, h5, h6⟩ := h2
  have g3 := hpoll _ _ _ _ _ _ h5 g1.1
  dsimp only at h6
  split at h6
  · cases h6; exact g3
  · exact sendVoteRequests_pw g1.2 h6 g3

theorem campaignAfterPreVote_pw {a r r' : Raft} (h : r.campaignAfterPreVote = .ok r')
    (h0 : PW a r) : PW a r' := by
  unfold Raft.campaignAfterPreVote at h
  exact campaignWith_pw (fun r frm t v r' res hp h1 =>
    pollWith_pw (fun _ _ hc => by cases hc) hp h1) h h0

theorem poll_pw {a r r' : Raft} {frm : Nat} {t : MsgType} {v : Bool} {res : VoteResult}
    (h : r.poll frm t v = .ok (r', res)) (h0 : PW a r) : PW a r' := by
  unfold Raft.poll at h
  exact pollWith_pw (fun _ _ hc h1 => campaignAfterPreVote_pw hc h1) h h0

theorem campaign_pw {a r r' : Raft} {ct : CampaignType} (h : r.campaign ct = .ok r')
    (h0 : PW a r) : PW a r' := by
  unfold Raft.campaign at h
  exact campaignWith_pw (fun _ _ _ _ _ _ hp h1 => poll_pw hp h1) h h0

theorem hup_pw {a r r' : Raft} {tl : Bool} (h : r.hup tl = .ok r') (h0 : PW a r) : PW a r' := by
  unfold Raft.hup at h
  split at h
  · cases h; exact h0
  · split at h
    · cases h; exact h0
    · split at h
      · cases h
      · cases h
      · cases h; exact h0
      · split at h
        · cases h; exact h0
        · split at h
          · exact campaign_pw h h0
          · split at h
            · exact campaign_pw h h0
            · exact campaign_pw h h0

/-! ### the vote arm, `maybe_commit_by_vote` -/

theorem maybeCommitByVote_pw {a r r' : Raft} {m : Message} (h : r.maybeCommitByVote m = .ok r')
    (h0 : PW a r) : PW a r' := by
  unfold Raft.maybeCommitByVote at h
  split at h
  · cases h; exact h0
  · simp only at h
    split at h
    · cases h; exact h0
    · split at h
      · cases h
      · cases h
      · cases h; exact h0
      · rename_i log hm
        have h1 : PW a { r with raftLog := log } := h0.log (c05_maybeCommit_same hm)
        split at h
        · cases h; exact h1
        · split at h
          · cases h
          · cases h
          · cases h; exact becomeFollower_pw _ _ h1
          · cases h; exact h1

theorem voteResp_wq {t rt : MsgType} (h : voteRespMsgType t = some rt) : wqT rt = false := by
  cases t <;> simp [voteRespMsgType] at h <;> subst h <;> rfl

theorem stepVoteGrant_pw {a r r' : Raft} {m : Message} {t : MsgType} (ht : wqT t = false)
    (h : r.stepVoteGrant m t = .ok r') (h0 : PW a r) : PW a r' := by
  unfold Raft.stepVoteGrant at h
  split at h
  · rename_i r1 hs
    have g1 := send_pw hs ht h0
    split at h
    · cases h; exact PW.mk' g1
    · cases h; exact g1
  · cases h
  · cases h

theorem stepVoteReject_pw {a r r' : Raft} {m : Message} {t : MsgType} (ht : wqT t = false)
    (h : r.stepVoteReject m t = .ok r') (h0 : PW a r) : PW a r' := by
  unfold Raft.stepVoteReject at h
  split at h
  · cases h
  · cases h
  · split at h
    · rename_i r1 hs
      have g1 := send_pw hs ht h0
      split at h
      · exact maybeCommitByVote_pw h g1
      · cases h; exact g1
    · cases h
    · cases h

theorem stepVote_pw {a r r' : Raft} {m : Message} (h : r.stepVote m = .ok r') (h0 : PW a r) :
    PW a r' := by
  unfold Raft.stepVote at h
  split at h
  · cases h
  · rename_i rt hrt
    have ht := voteResp_wq hrt
    split at h
    · exact stepVoteGrant_pw ht h h0
    · exact stepVoteReject_pw ht h h0
    · cases h
    · cases h

/-! ### follower handlers -/

theorem sendRequestSnapshot_pw {a r r' : Raft} (h : r.sendRequestSnapshot = .ok r')
    (h0 : PW a r) : PW a r' := by
  unfold Raft.sendRequestSnapshot at h
  simp only [] at h
  split at h
  · exact send_pw h rfl h0
  · cases h
  · cases h

theorem handleHeartbeat_pw {a r r' : Raft} {m : Message}
    (h : r.handleHeartbeat m = .ok r') (h0 : PW a r) : PW a r' := by
  unfold Raft.handleHeartbeat at h
  split at h
  · cases h
  · cases h
  · rename_i log hc
    have h1 : PW a { r with raftLog := log } := h0.log (c05_commitTo_same hc)
    simp only [] at h
    split at h
    · exact sendRequestSnapshot_pw h h1
    · exact send_pw h rfl h1

theorem requestSnapshot_pw {a r r' : Raft} {e : Option RaftError}
    (h : r.requestSnapshot = .ok (r', e)) (h0 : PW a r) : PW a r' := by
  unfold Raft.requestSnapshot at h
  repeat' (first | split at h | (simp only at h; split at h))
  all_goals first
    | (cases h; exact h0)
    | (cases h; done)
    | skip
  rw [Res.bind_eq_ok_iff] at h
  obtain ⟨r1, h1, h2⟩ := h
  cases h2
  exact sendRequestSnapshot_pw h1 (PW.mk' h0)

end CS
end Raft
end RaftModel
