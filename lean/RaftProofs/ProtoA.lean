import RaftProofs.ProtoR

/-!
Plumbing of acknowledgements through images: what the durable image covers is contained in every
pending image and in the live outbox (while the node is up); every released acknowledgement is
covered by the durable image; released vote requests stay covered by the durable (term, vote).
-/
namespace RaftModel.P

structure InvA (s : PSys) : Prop where
  sub : ∀ a ∈ s.acks, OMsg.ack a.term a.frm a.idx a.pre ∈ (s.nodes a.frm).dacks
  o1 : ∀ i, (s.nodes i).up = true → ∀ m ∈ (s.nodes i).dacks, m.isAck = true → m ∈ (s.nodes i).outbox
  o2 : ∀ i, ∀ im ∈ (s.nodes i).pending, ∀ m ∈ im.acks, m ∈ (s.nodes i).outbox
  o3 : ∀ i, ∀ im ∈ (s.nodes i).pending, ∀ m ∈ (s.nodes i).dacks, m.isAck = true → m ∈ im.acks
  o4 : ∀ i, (s.nodes i).pending.Pairwise (fun a b => ∀ m ∈ a.acks, m ∈ b.acks)
  ia : ∀ i, ∀ im ∈ (s.nodes i).pending, ∀ m ∈ im.acks, m.isAck = true
  dn : ∀ i, (s.nodes i).up = false → (s.nodes i).pending = []
  posq : ∀ i t c lt li, OMsg.voteReq t c lt li ∈ (s.nodes i).outbox → 0 < c
  rqv : ∀ r ∈ s.reqs, 0 < r.cand ∧ (r.term < (s.nodes r.cand).dterm ∨
          (r.term = (s.nodes r.cand).dterm ∧ (s.nodes r.cand).dvote = r.cand))

theorem invA_init : InvA init := by
  constructor <;> simp [init]

/-- a step that changes node `i` only, releases no acknowledgement and no vote request, and leaves
the durable (term, vote) of `i` alone -/
theorem invA_node (s : PSys) (h : InvA s) (i : Nat) (n : PNode) (s' : PSys)
    (hn : s'.nodes = upd s.nodes i n) (hacks : s'.acks = s.acks) (hreqs : s'.reqs = s.reqs)
    (hdk : n.dacks = (s.nodes i).dacks)
    (hreq : ∀ r ∈ s.reqs, r.cand = i → (r.term < n.dterm ∨ (r.term = n.dterm ∧ n.dvote = r.cand)))
    (posq : ∀ t c lt li, OMsg.voteReq t c lt li ∈ n.outbox → 0 < c)
    (o1 : n.up = true → ∀ m ∈ n.dacks, m.isAck = true → m ∈ n.outbox)
    (o2 : ∀ im ∈ n.pending, ∀ m ∈ im.acks, m ∈ n.outbox)
    (o3 : ∀ im ∈ n.pending, ∀ m ∈ n.dacks, m.isAck = true → m ∈ im.acks)
    (o4 : n.pending.Pairwise (fun a b => ∀ m ∈ a.acks, m ∈ b.acks))
    (ia : ∀ im ∈ n.pending, ∀ m ∈ im.acks, m.isAck = true)
    (dn : n.up = false → n.pending = []) : InvA s' := by
  have hnode : ∀ j, j ≠ i → s'.nodes j = s.nodes j := by intro j hj; rw [hn]; simp [upd, hj]
  have hnodei : s'.nodes i = n := by rw [hn]; simp [upd]
  constructor
  · intro a ha
    rw [hacks] at ha
    have := h.sub a ha
    by_cases hj : a.frm = i
    · rw [hj, hnodei, hdk]; rw [hj] at this; exact this
    · rw [hnode _ hj]; exact this
  · intro j; by_cases hj : j = i
    · subst hj; rw [hnodei]; exact o1
    · rw [hnode j hj]; exact h.o1 j
  · intro j; by_cases hj : j = i
    · subst hj; rw [hnodei]; exact o2
    · rw [hnode j hj]; exact h.o2 j
  · intro j; by_cases hj : j = i
    · subst hj; rw [hnodei]; exact o3
    · rw [hnode j hj]; exact h.o3 j
  · intro j; by_cases hj : j = i
    · subst hj; rw [hnodei]; exact o4
    · rw [hnode j hj]; exact h.o4 j
  · intro j; by_cases hj : j = i
    · subst hj; rw [hnodei]; exact ia
    · rw [hnode j hj]; exact h.ia j
  · intro j; by_cases hj : j = i
    · subst hj; rw [hnodei]; exact dn
    · rw [hnode j hj]; exact h.dn j
  · intro j; by_cases hj : j = i
    · subst hj; rw [hnodei]; exact posq
    · rw [hnode j hj]; exact h.posq j
  · intro r hr
    rw [hreqs] at hr
    have := h.rqv r hr
    refine ⟨this.1, ?_⟩
    by_cases hj : r.cand = i
    · rw [hj, hnodei]; have := hreq r hr hj; rw [hj] at this; exact this
    · rw [hnode _ hj]; exact this.2

/-- the durable (term, vote) of `i` unchanged: released requests stay covered -/
theorem keep_req (s : PSys) (h : InvA s) (i : Nat) :
    ∀ r ∈ s.reqs, r.cand = i → (r.term < (s.nodes i).dterm ∨ (r.term = (s.nodes i).dterm ∧ (s.nodes i).dvote = r.cand)) := by
  intro r hr hc; have := (h.rqv r hr).2; rw [← hc]; exact this

/-- appending a message to the outbox keeps all the containments -/
theorem invA_outbox_append (s : PSys) (h : InvA s) (i : Nat) (n : PNode) (x : OMsg) (s' : PSys)
    (hn : s'.nodes = upd s.nodes i n) (hacks : s'.acks = s.acks) (hreqs : s'.reqs = s.reqs)
    (hdk : n.dacks = (s.nodes i).dacks) (hdt : n.dterm = (s.nodes i).dterm) (hdv : n.dvote = (s.nodes i).dvote)
    (hup : n.up = (s.nodes i).up) (hp : n.pending = (s.nodes i).pending)
    (ho : ∀ m, m ∈ (s.nodes i).outbox → m ∈ n.outbox)
    (posq : ∀ t c lt li, OMsg.voteReq t c lt li ∈ n.outbox → 0 < c) : InvA s' := by
  refine invA_node s h i n s' hn hacks hreqs hdk (by rw [hdt, hdv]; exact keep_req s h i) posq ?_ ?_ ?_ ?_ ?_ ?_
  · intro hu m hm ha; rw [hdk] at hm; rw [hup] at hu; exact ho m (h.o1 i hu m hm ha)
  · intro im him m hm; rw [hp] at him; exact ho m (h.o2 i im him m hm)
  · intro im him m hm ha; rw [hp] at him; rw [hdk] at hm; exact h.o3 i im him m hm ha
  · rw [hp]; exact h.o4 i
  · intro im him; rw [hp] at him; exact h.ia i im him
  · intro hu; rw [hp]; rw [hup] at hu; exact h.dn i hu

theorem mem_eraseIdx_of_ne {l : List OMsg} {k : Nat} {m x : OMsg} (hk : l[k]? = some x) (hm : m ∈ l)
    (hne : m ≠ x) : m ∈ l.eraseIdx k := by
  induction l generalizing k with
  | nil => cases hm
  | cons a l ih =>
    cases k with
    | zero =>
      simp only [List.getElem?_cons_zero, Option.some.injEq] at hk
      subst hk
      simp only [List.eraseIdx_cons_zero]
      rcases List.mem_cons.1 hm with h | h
      · exact absurd h hne
      · exact h
    | succ k =>
      simp only [List.getElem?_cons_succ] at hk
      simp only [List.eraseIdx_cons_succ]
      rcases List.mem_cons.1 hm with h | h
      · subst h; exact List.mem_cons_self
      · exact List.mem_cons_of_mem _ (ih hk h)

/-- `posq` after appending non-request messages to the outbox -/
theorem posq_same (s : PSys) (hI : InvA s) (i : Nat) (extra : List OMsg)
    (hx : ∀ t c lt li, OMsg.voteReq t c lt li ∈ extra → 0 < c) :
    ∀ t c lt li, OMsg.voteReq t c lt li ∈ (s.nodes i).outbox ++ extra → 0 < c := by
  intro t c lt li hm
  rcases List.mem_append.1 hm with hm | hm
  · exact hI.posq i t c lt li hm
  · exact hx t c lt li hm

set_option maxHeartbeats 800000 in
theorem invA_step (c0 : Cfg) (s s' : PSys) (e : Event) (hV : InvV (vsys s)) (hR : InvR s) (hI : InvA s)
    (h : applyEvent s e = .ok s') : InvA s' := by
  cases e with
  | bump i t =>
    simp only [applyEvent, ok] at h
    split at h
    · cases h
      exact invA_outbox_append s hI i _ (.voteReq 0 0 0 0) _ rfl rfl rfl rfl rfl rfl rfl rfl (fun m hm => hm) (hI.posq i)
    · cases h
  | campaign i =>
    simp only [applyEvent, ok] at h
    split at h
    · rename_i hgc; cases h
      exact invA_outbox_append s hI i _ (.voteReq 0 0 0 0) _ rfl rfl rfl rfl rfl rfl rfl rfl
        (fun m hm => List.mem_append_left _ hm) (posq_same s hI i _ (by
          intro t c lt li hm; simp at hm; rw [hm.2.1]; exact hgc.2.2.2.1))
    · cases h
  | grant i c =>
    simp only [applyEvent, ok] at h
    split at h
    · split at h
      · cases h
        exact invA_outbox_append s hI i _ (.voteReq 0 0 0 0) _ rfl rfl rfl rfl rfl rfl rfl rfl
          (fun m hm => List.mem_append_left _ hm) (posq_same s hI i _ (by simp))
      · cases h
    · cases h
  | rdy i =>
    simp only [applyEvent, ok] at h
    split at h
    · rename_i hg; cases h
      refine invA_node s hI i _ _ rfl rfl rfl rfl (keep_req s hI i) (hI.posq i) (hI.o1 i) ?_ ?_ ?_ ?_ (by intro hu; simp only at hu; rw [hg] at hu; cases hu)
      · intro im him m hm
        simp only [List.mem_append, List.mem_singleton] at him
        rcases him with him | him
        · exact hI.o2 i im him m hm
        · subst him; simp only [image, List.mem_filter] at hm; exact hm.1
      · intro im him m hm ha
        simp only [List.mem_append, List.mem_singleton] at him
        rcases him with him | him
        · exact hI.o3 i im him m hm ha
        · subst him; simp only [image, List.mem_filter]; exact ⟨hI.o1 i hg m hm ha, ha⟩
      · simp only [List.pairwise_append, List.pairwise_cons, List.mem_singleton]
        refine ⟨hI.o4 i, ⟨by simp, List.Pairwise.nil⟩, ?_⟩
        intro a ha b hb m hm
        subst hb
        simp only [image, List.mem_filter]
        exact ⟨hI.o2 i a ha m hm, hI.ia i a ha m hm⟩
      · intro im him m hm
        simp only [List.mem_append, List.mem_singleton] at him
        rcases him with him | him
        · exact hI.ia i im him m hm
        · subst him; simp only [image, List.mem_filter] at hm; exact hm.2
    · cases h
  | persist i k =>
    simp only [applyEvent, ok] at h
    split at h
    · rename_i hg
      split at h
      · rename_i im him
        cases h
        have hmem : im ∈ (s.nodes i).pending := List.mem_of_getElem? him
        have hsplit : (s.nodes i).pending = (s.nodes i).pending.take (k - 1) ++ im :: (s.nodes i).pending.drop k := by
          have hlt : k - 1 < (s.nodes i).pending.length := (List.getElem?_eq_some_iff.mp him).1
          have hpe := (List.getElem?_eq_some_iff.mp him).2
          have := List.take_append_drop (k - 1) (s.nodes i).pending
          rw [List.drop_eq_getElem_cons hlt, hpe] at this
          have e : k - 1 + 1 = k := by have := hg.2.1; omega
          rw [e] at this
          exact this.symm
        have hpp := hI.o4 i
        rw [hsplit, List.pairwise_append] at hpp
        have hafter : ∀ x ∈ (s.nodes i).pending.drop k, ∀ m ∈ im.acks, m ∈ x.acks := by
          have := hpp.2.1
          rw [List.pairwise_cons] at this
          exact this.1
        have hle := ((hV.pa i (im.term, im.vote) (by
          simp only [vsys, vproj, List.mem_map]; exact ⟨im, hmem, rfl⟩)).1)
        constructor
        · intro a ha
          have := hI.sub a ha
          by_cases hj : a.frm = i
          · simp only [hj, upd, if_true]
            rw [hj] at this
            exact hI.o3 i im hmem _ this rfl
          · simp only [upd, hj, if_false]; exact this
        · intro j; by_cases hj : j = i
          · subst hj; simp only [upd, if_true]
            intro _ m hm _; exact hI.o2 j im hmem m hm
          · simp only [upd, hj, if_false]; exact hI.o1 j
        · intro j; by_cases hj : j = i
          · subst hj; simp only [upd, if_true]
            intro x hx m hm; exact hI.o2 j x (List.mem_of_mem_drop hx) m hm
          · simp only [upd, hj, if_false]; exact hI.o2 j
        · intro j; by_cases hj : j = i
          · subst hj; simp only [upd, if_true]
            intro x hx m hm _; exact hafter x hx m hm
          · simp only [upd, hj, if_false]; exact hI.o3 j
        · intro j; by_cases hj : j = i
          · subst hj; simp only [upd, if_true]
            have := hpp.2.1
            rw [List.pairwise_cons] at this
            exact this.2
          · simp only [upd, hj, if_false]; exact hI.o4 j
        · intro j; by_cases hj : j = i
          · subst hj; simp only [upd, if_true]
            intro x hx; exact hI.ia j x (List.mem_of_mem_drop hx)
          · simp only [upd, hj, if_false]; exact hI.ia j
        · intro j; by_cases hj : j = i
          · subst hj; simp only [upd, if_true]
            intro hu; rw [hg.1] at hu; cases hu
          · simp only [upd, hj, if_false]; exact hI.dn j
        · intro j; by_cases hj : j = i
          · subst hj; simp only [upd, if_true]; exact hI.posq j
          · simp only [upd, hj, if_false]; exact hI.posq j
        · intro r hr
          have hq := hI.rqv r hr
          refine ⟨hq.1, ?_⟩
          by_cases hj : r.cand = i
          · simp only [hj, upd, if_true]
            have h2 := hq.2
            rw [hj] at h2
            simp only [le2, VNode.d, vsys, vproj] at hle
            rcases hle with hlt | ⟨he, hv0 | hve⟩
            · omega
            · rcases h2 with h2 | ⟨h2, h3⟩
              · omega
              · rw [hv0] at h3; have := hq.1; omega
            · rcases h2 with h2 | ⟨h2, h3⟩
              · omega
              · right; exact ⟨by omega, by rw [← hve]; exact h3⟩
          · simp only [upd, hj, if_false]; exact hq.2
      · cases h
    · cases h
  | release i key =>
    simp only [applyEvent, ok] at h
    split at h
    · split at h
      · rename_i m hm
        split at h
        · rename_i hg
          have hmem : m ∈ (s.nodes i).dacks := List.mem_of_find?_eq_some hm
          cases m with
          | ack t f idx pre =>
            simp only [addReleased] at h
            cases h
            have hown : f = i := by
              have := (hR.dak i _ hmem).1; simpa [OMsg.owner] using this
            refine ⟨?_, hI.o1, hI.o2, hI.o3, hI.o4, hI.ia, hI.dn, hI.posq, hI.rqv⟩
            intro a ha
            simp only [List.mem_cons] at ha
            rcases ha with ha | ha
            · subst ha; simp only; rw [hown]; rw [hown] at hmem; exact hmem
            · exact hI.sub a ha
          | voteReq t c lt li => simp [OMsg.isAck] at hg
          | grant t vv c gh => simp [OMsg.isAck] at hg
        · cases h
      · cases h
    · split at h
      · rename_i k hk
        split at h
        · rename_i m hm
          split at h
          · rename_i hg
            have hmem : m ∈ (s.nodes i).outbox := List.mem_of_getElem? hm
            have hnotack : m.isAck = false := by simpa using hg.2.2
            have hkeep : ∀ x, x ∈ (s.nodes i).outbox → x.isAck = true → x ∈ (s.nodes i).outbox.eraseIdx k := by
              intro x hx hxa
              exact mem_eraseIdx_of_ne hm hx (by intro he; rw [he, hnotack] at hxa; cases hxa)
            have hbase : InvA { s with nodes := upd s.nodes i { s.nodes i with outbox := (s.nodes i).outbox.eraseIdx k } } := by
              refine invA_node s hI i _ _ rfl rfl rfl rfl (keep_req s hI i) (fun t c lt li hm => hI.posq i t c lt li (List.mem_of_mem_eraseIdx hm)) ?_ ?_ (hI.o3 i) (hI.o4 i) (hI.ia i) (hI.dn i)
              · intro hu x hx hxa; exact hkeep x (hI.o1 i hu x hx hxa) hxa
              · intro im him x hx; exact hkeep x (hI.o2 i im him x hx) (hI.ia i im him x hx)
            cases m with
            | voteReq t c lt li =>
              simp only [addReleased] at h
              cases h
              have hr := hg.2.1
              simp only [releasable, Bool.or_eq_true, Bool.and_eq_true, decide_eq_true_eq] at hr
              refine ⟨hbase.sub, hbase.o1, hbase.o2, hbase.o3, hbase.o4, hbase.ia, hbase.dn, hbase.posq, ?_⟩
              intro r hr'
              simp only [List.mem_cons] at hr'
              rcases hr' with hr' | hr'
              · subst hr'
                have hci : c = i := by have := (hR.own i _ hmem).1; simpa [OMsg.owner] using this
                have hpos := hI.posq i t c lt li hmem
                refine ⟨hpos, ?_⟩
                simp only [hci, upd, if_true]
                rcases hr with hr | hr
                · left; exact hr
                · right; exact ⟨hr.1.symm, by rw [hr.2, hci]⟩
              · exact hbase.rqv r hr'
            | grant t vv c gh =>
              simp only [addReleased] at h
              cases h
              exact ⟨hbase.sub, hbase.o1, hbase.o2, hbase.o3, hbase.o4, hbase.ia, hbase.dn, hbase.posq, hbase.rqv⟩
            | ack t f idx pre => simp [OMsg.isAck] at hnotack
          · cases h
        · cases h
      · cases h
  | crash i =>
    simp only [applyEvent, ok] at h
    split at h
    · cases h
      exact invA_node s hI i _ _ rfl rfl rfl rfl (keep_req s hI i) (by simp) (by simp) (by simp) (by simp) (by simp) (by simp) (by simp)
    · cases h
  | restart i =>
    simp only [applyEvent, ok] at h
    split at h
    · cases h
      refine invA_node s hI i _ _ rfl rfl rfl rfl (keep_req s hI i) (by intro t c lt li hm; simp [List.mem_filter, OMsg.isAck] at hm) ?_ (by simp) (by simp) (by simp) (by simp) (by simp)
      intro _ m hm ha
      simp only [List.mem_filter]; exact ⟨hm, ha⟩
    · cases h
  | read r =>
    simp only [applyEvent, ok] at h
    split at h
    · cases h; exact ⟨hI.sub, hI.o1, hI.o2, hI.o3, hI.o4, hI.ia, hI.dn, hI.posq, hI.rqv⟩
    · cases h
  | win i cfg q =>
    simp only [applyEvent, ok] at h
    split at h
    · cases h
      exact invA_outbox_append s hI i _ (.voteReq 0 0 0 0) _ rfl rfl rfl rfl rfl rfl rfl rfl (fun m hm => hm) (hI.posq i)
    · cases h
  | stepDown i =>
    simp only [applyEvent, ok] at h
    split at h
    · cases h
      exact invA_outbox_append s hI i _ (.voteReq 0 0 0 0) _ rfl rfl rfl rfl rfl rfl rfl rfl (fun m hm => hm) (hI.posq i)
    · cases h
  | leaderAppend i e =>
    simp only [applyEvent, ok] at h
    split at h
    · cases h
      exact invA_outbox_append s hI i _ (.voteReq 0 0 0 0) _ rfl rfl rfl rfl rfl rfl rfl rfl (fun m hm => hm) (hI.posq i)
    · cases h
  | sendApp i m =>
    simp only [applyEvent, ok] at h
    split at h
    · cases h; exact ⟨hI.sub, hI.o1, hI.o2, hI.o3, hI.o4, hI.ia, hI.dn, hI.posq, hI.rqv⟩
    · cases h
  | recvApp i m =>
    simp only [applyEvent, ok] at h
    split at h
    · cases h
      exact invA_outbox_append s hI i _ (.voteReq 0 0 0 0) _ rfl rfl rfl rfl rfl rfl rfl rfl
        (fun m hm => List.mem_append_left _ hm) (posq_same s hI i _ (by simp))
    · cases h
  | ackCommitted i =>
    simp only [applyEvent, ok] at h
    split at h
    · cases h
      exact invA_outbox_append s hI i _ (.voteReq 0 0 0 0) _ rfl rfl rfl rfl rfl rfl rfl rfl
        (fun m hm => List.mem_append_left _ hm) (posq_same s hI i _ (by simp))
    · cases h
  | ackSelf i idx =>
    simp only [applyEvent, ok] at h
    split at h
    · cases h
      exact invA_outbox_append s hI i _ (.voteReq 0 0 0 0) _ rfl rfl rfl rfl rfl rfl rfl rfl
        (fun m hm => List.mem_append_left _ hm) (posq_same s hI i _ (by simp))
    · cases h
  | commitLeader i c cfg q =>
    simp only [applyEvent, ok] at h
    split at h
    · cases h
      exact invA_outbox_append s hI i _ (.voteReq 0 0 0 0) _ rfl rfl rfl rfl rfl rfl rfl rfl (fun m hm => hm) (hI.posq i)
    · cases h
  | commitApp i c m =>
    simp only [applyEvent, ok] at h
    split at h
    · cases h
      exact invA_outbox_append s hI i _ (.voteReq 0 0 0 0) _ rfl rfl rfl rfl rfl rfl rfl rfl (fun m hm => hm) (hI.posq i)
    · cases h
  | commitHB i c m =>
    simp only [applyEvent, ok] at h
    split at h
    · cases h
      exact invA_outbox_append s hI i _ (.voteReq 0 0 0 0) _ rfl rfl rfl rfl rfl rfl rfl rfl (fun m hm => hm) (hI.posq i)
    · cases h
  | commitClaim i m =>
    simp only [applyEvent, ok] at h
    split at h
    · cases h
      exact invA_outbox_append s hI i _ (.voteReq 0 0 0 0) _ rfl rfl rfl rfl rfl rfl rfl rfl (fun m hm => hm) (hI.posq i)
    · cases h
  | sendHB i to c =>
    simp only [applyEvent, ok] at h
    split at h
    · cases h; exact ⟨hI.sub, hI.o1, hI.o2, hI.o3, hI.o4, hI.ia, hI.dn, hI.posq, hI.rqv⟩
    · cases h
  | claim i idx =>
    simp only [applyEvent, ok] at h
    split at h
    · cases h; exact ⟨hI.sub, hI.o1, hI.o2, hI.o3, hI.o4, hI.ia, hI.dn, hI.posq, hI.rqv⟩
    · cases h
  | sendSnap i idx =>
    simp only [applyEvent, ok] at h
    split at h
    · cases h; exact ⟨hI.sub, hI.o1, hI.o2, hI.o3, hI.o4, hI.ia, hI.dn, hI.posq, hI.rqv⟩
    · cases h
  | installSnap i t idx sterm =>
    simp only [applyEvent, ok] at h
    split at h
    · split at h
      · cases h
        exact invA_outbox_append s hI i _ (.voteReq 0 0 0 0) _ rfl rfl rfl rfl rfl rfl rfl rfl
          (fun m hm => List.mem_append_left _ hm) (posq_same s hI i _ (by simp))
      · cases h
    · cases h
  | commitSnap i t idx sterm =>
    simp only [applyEvent, ok] at h
    split at h
    · split at h
      · cases h
        exact invA_outbox_append s hI i _ (.voteReq 0 0 0 0) _ rfl rfl rfl rfl rfl rfl rfl rfl (fun m hm => hm) (hI.posq i)
      · cases h
    · cases h
  | bootstrap i donor idx =>
    simp only [applyEvent, ok] at h
    split at h
    · rename_i hg
      cases h
      have hnr : ∀ r ∈ s.reqs, r.cand ≠ i := by
        intro r hr hc
        have := hI.rqv r hr
        rw [hc, hg.2.2.2.2.1, hg.2.2.2.2.2.1] at this
        omega
      refine invA_node s hI i _ _ rfl rfl rfl rfl (fun r hr hc => absurd hc (hnr r hr)) ?_ ?_ ?_ ?_ ?_ ?_ ?_
      · intro t c lt li hm; simp only [hg.2.2.2.2.2.2.2.2.1] at hm; cases hm
      · intro _ m hm; simp only [hg.2.2.2.2.2.2.2.2.2.2.2.2.2.2.2] at hm; cases hm
      · intro im him; simp only [hg.2.2.2.2.2.2.2.2.2.1] at him; cases him
      · intro im him; simp only [hg.2.2.2.2.2.2.2.2.2.1] at him; cases him
      · simp only [hg.2.2.2.2.2.2.2.2.2.1]; exact List.Pairwise.nil
      · intro im him; simp only [hg.2.2.2.2.2.2.2.2.2.1] at him; cases him
      · intro hu; cases hu
    · cases h

theorem invA_reachR (s : PSys) (h : Reach s) : InvA s := by
  induction h with
  | init => exact invA_init
  | step e hr hstep ih => exact invA_step ⟨[], []⟩ _ _ e (invV_reachR _ hr) (invR_reachR _ hr) ih hstep

theorem invA_reach (c0 : Cfg) (s : PSys) (h : ReachC c0 s) : InvA s := invA_reachR s (reach_of_reachC h)

end RaftModel.P
