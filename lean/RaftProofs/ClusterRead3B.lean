import RaftProofs.ClusterRead3A
import RaftProofs.ClusterReadO

/-!
Cluster-level ReadIndex safety for **forwarded** reads, part 3B: the bundle `RdHypF` (the read layer's
`RdHyp` with `nori` / `norir` replaced by `once`: every `MsgReadIndex` is delivered at most once, and
unique non-empty contexts over all `read_index` calls), and the two halves that are proved:

* `fwd_reg_covers` (leader side): a delivered `MsgReadIndex` that REGISTERS its context does so on a
  leader that has committed in its term, under the context of the message, with the leader's commit
  index, and that index covers every commit event before the delivery step of a term up to the
  leader's (`IdxOK`, by `idx_ok_reg`); hence it covers every commit index of every state `h[n]`,
  `n ≤ k`, in which no term above the leader's is led;
* `read_state_source` (follower side): whichever step adds a read state to a node either delivers a
  `MsgReadIndexResp` of the transport to a follower (no term or the follower's term; the read state is
  the response's `(index, entries[0].data)`), or answers a request filed at this very node (`Ans`).
-/
namespace RaftModel
namespace Cluster
open Node Raft Raft.CC Raft.RD RaftProps.C02 RaftProps.C05

/-- the step `h[n] → h[n+1]` can be read as the delivery of the message `m` of the transport to node `k` -/
def DeliverAt (h : List Sys) (n k : Nat) (m : Message) : Prop :=
  ∃ (a b : Sys) (st st' : NState) (rnd : Option Nat) (res : OpRes),
    h[n]? = some a ∧ h[n + 1]? = some b ∧ a.node k = some st ∧ m ∈ a.net ∧ m.to = k ∧
    Node.call st rnd (.step m) = .ok (res, st') ∧ b = a.setNode k st'

/-- the step `h[n] → h[n+1]` is a `read_index(ctx)` call on node `f` that FORWARDS: `f` is a follower with
a known leader and queues a `MsgReadIndex` carrying `ctx` -/
def FwdAt (h : List Sys) (n f : Nat) (ctx : Bytes) : Prop :=
  ∃ (a b : Sys) (st st' : NState) (rnd : Option Nat) (res : OpRes),
    h[n]? = some a ∧ h[n + 1]? = some b ∧ a.node f = some st ∧
    Node.call st rnd (.readIndex ctx) = .ok (res, st') ∧ b = a.setNode f st' ∧
    st.raft.state = .follower ∧ st.raft.leaderId ≠ 0 ∧
    ∃ y ∈ st'.raft.msgs, y ∉ st.raft.msgs ∧ y.msgType = .msgReadIndex ∧ reqCtx y = some ctx

theorem FwdAt.call {h : List Sys} {n f : Nat} {ctx : Bytes} (hf : FwdAt h n f ctx) :
    ReadCallAt h n f ctx := by
  obtain ⟨a, b, st, st', rnd, res, h1, h2, h3, h4, h5, _⟩ := hf
  exact ⟨a, b, st, st', rnd, res, h1, h2, h3, h4, h5⟩

/-- the delivery of the `MsgReadIndex` `m` to node `l` at step `k` **registers** the context `K` with
read index `idx`: `K` was not pending on `l` before and is pending afterwards -/
def FwdRegAt (h : List Sys) (k l : Nat) (m : Message) (K : Bytes) (idx : Nat) : Prop :=
  ∃ (a b : Sys) (st st' : NState) (rnd : Option Nat) (res : OpRes),
    h[k]? = some a ∧ h[k + 1]? = some b ∧ a.node l = some st ∧ m ∈ a.net ∧ m.to = l ∧
    m.msgType = .msgReadIndex ∧
    Node.call st rnd (.step m) = .ok (res, st') ∧ b = a.setNode l st' ∧
    (∀ rs, (K, rs) ∉ st.raft.readOnly.pendingReadIndex) ∧
    ∃ rs, (K, rs) ∈ st'.raft.readOnly.pendingReadIndex ∧ rs.index = idx

theorem FwdRegAt.deliver {h : List Sys} {k l : Nat} {m : Message} {K : Bytes} {idx : Nat}
    (hr : FwdRegAt h k l m K idx) : DeliverAt h k l m := by
  obtain ⟨a, b, st, st', rnd, res, h1, h2, h3, h4, h5, _, h7, h8, _⟩ := hr
  exact ⟨a, b, st, st', rnd, res, h1, h2, h3, h4, h5, h7, h8⟩

/-- **the hypotheses of the read layer with forwarded reads**: those of the commit layer (`Hyp3w`),
`safe`, and — in place of `nori` / `norir` of `RdHyp` —
* `once`: no two steps of the history deliver the same `MsgReadIndex` to the same node (the transport
  does not duplicate forwarded read requests; F17 is exactly a second delivery);
* `uniqc` / `nonempty`: the contexts of ALL `read_index` calls, at all nodes, whether they register,
  forward or drop the request, are unique and not empty. -/
structure RdHypF (cfg : JointConfig) (c0 : Nat) (h : List Sys) : Prop extends Hyp3w cfg c0 h where
  safe : ∀ s ∈ h, ∀ i st, s.node i = some st → st.raft.readOnly.option = .safe
  once : ∀ n1 n2 k m, m.msgType = .msgReadIndex → DeliverAt h n1 k m → DeliverAt h n2 k m → n1 = n2
  uniqc : ∀ n1 n2 i1 i2 K, ReadCallAt h n1 i1 K → ReadCallAt h n2 i2 K → n1 = n2
  nonempty : ∀ n i K, ReadCallAt h n i K → K ≠ []

variable {cfg : JointConfig} {c0 : Nat} {h : List Sys}

/-- a history without any `MsgReadIndex` in the transport (the setting of C08c) satisfies `once` -/
theorem RdHypF.of_nori (H3 : Hyp3w cfg c0 h)
    (safe : ∀ s ∈ h, ∀ i st, s.node i = some st → st.raft.readOnly.option = .safe)
    (nori : ∀ s ∈ h, ∀ x ∈ s.net, x.msgType ≠ .msgReadIndex)
    (uniqc : ∀ n1 n2 i1 i2 K, ReadCallAt h n1 i1 K → ReadCallAt h n2 i2 K → n1 = n2)
    (nec : ∀ n i K, ReadCallAt h n i K → K ≠ []) : RdHypF cfg c0 h :=
  { toHyp3w := H3, safe := safe, uniqc := uniqc, nonempty := nec,
    once := fun n1 _ _ m hty h1 _ => by
      obtain ⟨a, _, _, _, _, _, p1, _, _, p4, _⟩ := h1
      exact absurd hty (nori a (mem_of_get p1) m p4) }

theorem IdxOK.mono {n k t r : Nat} (hi : IdxOK h c0 k t r) (hle : n ≤ k) : IdxOK h c0 n t r :=
  ⟨hi.1, fun E hE h1 h2 => hi.2 E hE (by omega) h2⟩

/-- `good_of` (`RaftProofs/ClusterReadM.lean`) over the commit layer's bundle -/
theorem good_ofA (H3 : Hyp3a cfg c0 h) {n0 : Nat} {s0 : Sys} (hn0 : h[n0]? = some s0) {t r : Nat}
    (hidx : IdxOK h c0 n0 t r)
    (hno : ∀ n1 s1 l' t', h[n1]? = some s1 → n1 ≤ n0 → leads s1 l' t' → t' ≤ t) :
    ∀ u stu, s0.node u = some stu → stu.raft.raftLog.committed ≤ r := by
  have H2 := H3.toHyp2w
  intro u stu hu
  rcases (sm_all H3 hn0).nctm u stu hu with c | ⟨E, hE, e1, e2, _, _⟩
  · exact Nat.le_trans c hidx.1
  · obtain ⟨_, b', _, stb, _, eb, _, hlb, hs, ht, _⟩ := Ev.facts H2 hE
    have := hno (E.nE + 1) b' E.l E.t eb (by omega) ⟨stb, hlb, hs, ht⟩
    exact Nat.le_trans e2 (hidx.2 E hE e1 this)

/-- **leader side**: a delivered `MsgReadIndex` that registers a context -/
theorem fwd_reg_covers (H : Hyp3w cfg c0 h)
    (safe : ∀ s ∈ h, ∀ i st, s.node i = some st → st.raft.readOnly.option = .safe) {k l : Nat} {m : Message} {K : Bytes} {idx : Nat}
    (hr : FwdRegAt h k l m K idx) :
    reqCtx m = some K ∧
    ∃ a st, h[k]? = some a ∧ a.node l = some st ∧ st.raft.state = .leader ∧
      st.raft.commitToCurrentTerm = .ok true ∧
      idx = st.raft.raftLog.committed ∧ IdxOK h c0 k st.raft.term idx ∧
      ∀ n sn, n ≤ k → h[n]? = some sn →
        (∀ n1 s1 l' t', h[n1]? = some s1 → n1 ≤ n → leads s1 l' t' → t' ≤ st.raft.term) →
        ∀ u stu, sn.node u = some stu → stu.raft.raftLog.committed ≤ idx := by
  have H3 := H.toHyp3a
  have H2 := H3.toHyp2w
  obtain ⟨a, b, st, st', rnd, res, h1, h2, h3, h4, h5, hty, h7, h8, hnot, rs, hrs, hidx⟩ := hr
  cases callRi_cases hty h7 with
  | keep hk _ =>
    exfalso
    rcases hk.keep with ⟨g, _⟩ | g
    · rw [g] at hrs; exact hnot rs hrs
    · rw [g] at hrs; cases hrs
  | now hs =>
    exfalso
    rcases hs with c | c
    · rw [not_singleton H2 (mem_of_get h1) h3] at c; cases c
    · exact c (safe a (mem_of_get h1) l st h3)
  | reg hl hc ro hadd hcore =>
    have e1 : st'.raft.readOnly = ro := congrArg RCore.ro hcore
    rw [e1] at hrs
    obtain ⟨en, hen, hcase⟩ := addRequest_specM hadd
    rcases hcase with q | ⟨q, _⟩
    · rw [q] at hrs; exact absurd hrs (hnot rs)
    · rw [q] at hrs
      rcases List.mem_append.1 hrs with g | g
      · exact absurd g (hnot rs)
      · have g' := List.mem_singleton.1 g
        injection g' with g1 g2
        have hi : idx = st.raft.raftLog.committed := by rw [← hidx, g2]
        have hok := idx_ok_reg H3 h1 h3 hl hc
        refine ⟨by unfold reqCtx; rw [hen, g1]; rfl, a, st, h1, h3, hl, hc, hi, by rw [hi]; exact hok,
          fun n sn hle hn hno => ?_⟩
        rw [hi]
        exact good_ofA H3 hn (hok.mono hle) hno

/-- **follower side**: the step that adds a read state to a node delivers a `MsgReadIndexResp` of the
transport to a follower, or answers a request filed at this node -/
theorem read_state_source (H : Hyp3w cfg c0 h)
    (safe : ∀ s ∈ h, ∀ i st, s.node i = some st → st.raft.readOnly.option = .safe) {n : Nat} {a b : Sys} (ha : h[n]? = some a)
    (hb : h[n + 1]? = some b) {j : Nat} {st st' : NState} (hja : a.node j = some st)
    (hjb : b.node j = some st') {x : ReadState} (hx : x ∈ st'.raft.readStates)
    (hnew : x ∉ st.raft.readStates) :
    (∃ y, y ∈ a.net ∧ y.to = j ∧ y.msgType = .msgReadIndexResp ∧ DeliverAt h n j y ∧
      st'.raft.state = .follower ∧ (y.term = 0 ∨ y.term = st'.raft.term) ∧
      ∃ en, y.entries = [en] ∧ x = { index := y.index, requestCtx := en.data }) ∨
    (∃ m, Ans cfg st.raft m x) := by
  have H2 := H.toHyp2w
  have hfa := H2.fix a (mem_of_get ha)
  have hfb := H2.fix b (mem_of_get hb)
  have fin : ∀ (k : Nat) (st st' : NState) (m : Message), a.node k = some st →
      b = a.setNode k st' →
      (∃ V, (V = st.raft.prs.voters ∨ V = st'.raft.prs.voters) ∧ ROut V st.raft m st'.raft) →
      ROut cfg st.raft m st'.raft := by
    intro k st st' m hk hbe ⟨V, hV, ho⟩
    have e1 := hfa k st hk
    have e2 := hfb k st' (by rw [hbe]; exact node_setNode_self a k st')
    rcases hV with c | c
    · rw [← e1, ← c]; exact ho
    · rw [← e2, ← c]; exact ho
  -- the node that moved is `j`
  have same : ∀ k stk stk', a.node k = some stk → (a.setNode k stk').node j = some st' →
      j = k ∧ stk = st ∧ stk' = st' := by
    intro k stk stk' hk hv
    rcases node_cases hv with ⟨e1, e2⟩ | ⟨_, e2⟩
    · subst e1
      rw [hja] at hk; cases hk
      exact ⟨rfl, rfl, e2.symm⟩
    · rw [hja] at e2; cases e2
      exact absurd hx hnew
  cases H2.steps n a b ha hb with
  | call k stk stk' rnd op res h1 h2 h3 _ h4 =>
    obtain ⟨e1, e2, e3⟩ := same k stk stk' h1 hjb
    subst e1; subst e2; subst e3
    by_cases hri : ∃ K, op = .readIndex K
    · obtain ⟨K, e⟩ := hri
      subst e
      exfalso
      unfold Node.call at h4
      simp only [applyOp] at h4
      obtain ⟨raft, hx', hr⟩ := CV.okRes_ok h4
      rw [hr] at hx
      cases riOut_rebase (readIndex_cases hx') with
      | frame hf => rw [hf.rs] at hx; exact hnew hx
      | now hs =>
        rcases hs with c | c
        · rw [not_singleton H2 (mem_of_get ha) h1] at c; cases c
        · exact c (safe a (mem_of_get ha) j stk h1)
      | reg hl hc ro hadd hcore hmsgs =>
        have : raft.readStates = stk.raft.readStates := congrArg RCore.rs hcore
        rw [this] at hx; exact hnew hx
    · have hop : CV.opMsg op = CV.mLocal := by
        cases op <;> first | rfl | (cases h2; done)
      have ho := fin j stk stk' _ h1 rfl
        (call_rd stk stk' rnd op res (fun K hK => hri ⟨K, hK⟩)
          (by intro hc; rw [hc] at h2; cases h2)
          (by
            intro m hm
            rcases hm with hm | hm <;> rw [hm] at h2 <;> cases h2) h4)
      rcases ho.rst x hx with g | g | g
      · exact absurd g hnew
      · rw [hop] at g; cases g
      · exact .inr ⟨_, g⟩
  | deliver k stk stk' rnd m res h1 h2 h3 h4 =>
    obtain ⟨e1, e2, e3⟩ := same k stk stk' h1 hjb
    subst e1; subst e2; subst e3
    by_cases hty : m.msgType = .msgReadIndex
    · exfalso
      cases callRi_cases hty h4 with
      | keep hk _ => rw [hk.rs] at hx; exact hnew hx
      | now hs =>
        rcases hs with c | c
        · rw [not_singleton H2 (mem_of_get ha) h1] at c; cases c
        · exact c (safe a (mem_of_get ha) j stk h1)
      | reg hl hc ro hadd hcore =>
        have : stk'.raft.readStates = stk.raft.readStates := congrArg RCore.rs hcore
        rw [this] at hx; exact hnew hx
    · by_cases hty2 : m.msgType = .msgReadIndexResp
      · rcases callRir_cases hty2 h4 x hx with g | ⟨g1, g2, g3⟩
        · exact absurd g hnew
        · exact .inl ⟨m, h2, h3, hty2, ⟨a, _, stk, stk', rnd, res, ha, hb, h1, h2, h3, h4, rfl⟩,
            g1, g2, g3⟩
      · have ho := fin j stk stk' _ h1 rfl
          (call_rd stk stk' rnd (.step m) res (fun K hK => by cases hK) (by intro hc; cases hc)
            (by
              intro m' hm
              have e : m' = m := by
                rcases hm with hm | hm
                · injection hm with hm; exact hm.symm
                · cases hm
              subst e
              exact ⟨hty, H2.nosnap a (mem_of_get ha) m' h2⟩) h4)
        rcases ho.rst x hx with g | g | g
        · exact absurd g hnew
        · exact absurd g hty2
        · exact .inr ⟨_, g⟩
  | send k stk stk' h1 _ _ h3 =>
    exfalso
    have hv : (a.setNode k stk').node j = some st' := by
      rw [← hjb]; rfl
    obtain ⟨e1, e2, e3⟩ := same k stk stk' h1 hv
    subst e1; subst e2; subst e3
    unfold Node.call at h3
    simp only [applyOp] at h3
    cases h3
    cases hx
  | restart k stk stk' c rnd h1 _ h3 =>
    exfalso
    obtain ⟨e1, e2, e3⟩ := same k stk stk' h1 hjb
    subst e1; subst e2; subst e3
    rw [(boot_fresh c _ rnd stk' h3).2.2] at hx
    cases hx

/-! ### F17's history violates `once` -/

set_option maxRecDepth 100000 in
/-- the first delivery of node 2's forwarded `MsgReadIndex([9])` to node 1 (step 16) -/
theorem c08y_deliver16 : DeliverAt c08y_hist 16 1 c08y_fwd :=
  ⟨c08y_s16, c08y_s17, c01x_a8, c08y_a9, none, _, rfl, rfl, rfl, by decide, by decide,
    c02x_out _ (by decide), rfl⟩

set_option maxRecDepth 100000 in
/-- … and the second one (step 40) -/
theorem c08y_deliver40 : DeliverAt c08y_hist 40 1 c08y_fwd :=
  ⟨c08y_s40, c08y_s41, c08y_a12, c08y_a13, none, _, rfl, rfl, rfl, by decide, by decide,
    c02x_out _ (by decide), rfl⟩

theorem c08y_fwd_type : c08y_fwd.msgType = .msgReadIndex := by decide

set_option maxRecDepth 100000 in
/-- step 14 of F17's history is a forwarding `read_index([9])` call on follower 2 -/
theorem c08y_fwdAt : FwdAt c08y_hist 14 2 c08y_K :=
  ⟨c01x_s14, c08y_s15, c01x_b6, c08y_b7, none, _, rfl, rfl, rfl, c02x_out _ (by decide), rfl,
    by decide, by decide, c08y_fwd, by decide, by decide, by decide, by decide⟩

set_option maxRecDepth 100000 in
/-- step 16 of F17's history: the forwarded `MsgReadIndex([9])` is registered by leader 1 with read
index 1 -/
theorem c08y_fwdRegAt : FwdRegAt c08y_hist 16 1 c08y_fwd c08y_K 1 := by
  refine ⟨c08y_s16, c08y_s17, c01x_a8, c08y_a9, none, _, rfl, rfl, rfl, by decide, by decide,
    by decide, c02x_out _ (by decide), rfl, ?_, (c08y_a9.raft.readOnly.pendingReadIndex.head!).2,
    by decide, by decide⟩
  intro rs hrs
  have : c01x_a8.raft.readOnly.pendingReadIndex = [] := by decide
  rw [this] at hrs
  cases hrs

end Cluster
end RaftModel
