import RaftProofs.ClusterCommit4L
import RaftProofs.ClusterBatchK

/-!
Cluster-level commit safety **with `batch_append`**, part 5M: `call_sto` (what one call does to the
stored entries) and the log half of `call_q` (`LogRel`: how one call changes the logical log) ported from
the per-call relation `K` of the Log Matching layer (`batchAppend = false` baked in) to the relations
`N` / `L` of `RaftProofs/ClusterBatch*.lean`: no hypothesis on `batch_append`, but the proviso `Prov0`
of the batching layer (a node that is leader before or after the call had a clean queue before it —
`InvB.lc` / `prov0_of_inv` at cluster level).
-/
namespace RaftModel
namespace Raft
namespace Bt
open Node CC

/-- the stored entries are kept, and the logical log is kept, grew by a leader's append, or the input
was a `MsgAppend` (`SE` and `LogRel` of the commit layer) -/
structure SLg (a r : Raft) (m : Message) : Prop where
  se : SE a r
  l : LogRel a r m

theorem SLg.of_n0 {a r : Raft} {m : Message} (h : N0 a r) : SLg a r m :=
  ⟨⟨h.ls.ents, h.ls.smeta⟩, .inl h.abs⟩

theorem SLg.of_l0 {a r : Raft} {m : Message} (h : L0 a r) : SLg a r m :=
  ⟨⟨h.ls.ents, h.ls.smeta⟩, .inl h.abs⟩

theorem SLg.of_sl {a r : Raft} {m : Message} (h : SL a r) (hinv : a.raftLog.Inv)
    (hcl : Prov0 a r) : SLg a r m := by
  rcases h with c | ⟨hl, c⟩
  · exact SLg.of_n0 c
  · exact SLg.of_l0 (c hinv (hcl (.inl hl)))

theorem SLg.of_appB {a r : Raft} {m : Message} {es : List Entry} (h : AppendedB a r es)
    (hc : CleanQ a.msgs a.raftLog.abs) : SLg a r m :=
  ⟨⟨(h.qs hc).ents, (h.qs hc).smeta⟩, .inr (.inl ⟨es, h.app⟩)⟩

theorem SLg.of_appN {a r : Raft} {m : Message} {es : List Entry} (h : AppendedN a r es) :
    SLg a r m :=
  ⟨⟨h.qs.ents, h.qs.smeta⟩, .inr (.inl ⟨es, h.app⟩)⟩

theorem SLg.of_fields {a r : Raft} {m : Message} (hl : r.raftLog = a.raftLog) : SLg a r m :=
  ⟨⟨by rw [hl], by rw [hl]⟩, .inl (by rw [hl])⟩

theorem SLg.rebase {a a' r : Raft} {m : Message} (h : SLg a' r m) (hl : a'.raftLog = a.raftLog) :
    SLg a r m := by
  refine ⟨⟨by rw [← hl]; exact h.se.1, by rw [← hl]; exact h.se.2⟩, ?_⟩
  rcases h.l with c | ⟨es, c⟩ | c
  · exact .inl (by rw [← hl]; exact c)
  · exact .inr (.inl ⟨es, ⟨c.ne, by rw [← hl]; exact c.abs, by rw [← hl]; exact c.contig, c.terms,
      by rw [← hl]; exact c.last, c.inv, by rw [← hl]; exact c.commit, c.leader⟩⟩)
  · exact .inr (.inr c)

theorem SLg.retag {a r : Raft} {m m' : Message} (h : SLg a r m) (hm : m.msgType ≠ .msgAppend) :
    SLg a r m' :=
  ⟨h.se, h.l.imp (fun g => g) (fun g => g.imp (fun g => g) (fun g => absurd g hm))⟩

/-- **`Raft::step`** keeps the stored entries (no `MsgSnapshot`), batching on or off -/
theorem step_slg {r r' : Raft} {m : Message} {e : Option RaftError} (hinv : r.raftLog.Inv)
    (hcl : Prov0 r r') (hw : m.msgType = .msgAppend → MsgOk m)
    (hms : m.msgType ≠ .msgSnapshot) (h : r.step m = .ok (r', e)) : SLg r r' m := by
  rcases step_b hinv h with c | ⟨_, hl, _, _, es, _, c⟩ | ⟨_, _, c⟩ | ⟨hm, _, r0, c1, _, c3⟩ |
    ⟨hm, _, _⟩ | ⟨hl, _, c⟩
  · exact SLg.of_n0 c
  · exact SLg.of_appB c (hcl (.inl hl))
  · exact SLg.of_appB c (hcl (.inr c.app.leader))
  · obtain ⟨_, e2, _⟩ := handleAppendEntries_eff (c1.inv hinv) (hw hm) c3
    exact ⟨⟨by rw [e2]; exact c1.ls.ents, by rw [e2]; exact c1.ls.smeta⟩, .inr (.inr hm)⟩
  · exact absurd hm hms
  · exact SLg.of_l0 (c hinv (hcl (.inl hl)))

theorem stepIgnore_slg {r r' : Raft} {m : Message} (hinv : r.raftLog.Inv)
    (hcl : Prov0 r r') (hw : m.msgType = .msgAppend → MsgOk m)
    (hms : m.msgType ≠ .msgSnapshot) (h : r.stepIgnore m = .ok r') : SLg r r' m := by
  unfold Raft.stepIgnore at h
  obtain ⟨⟨r1, e⟩, hs, h⟩ := Res.bind_eq_ok h
  cases h
  exact step_slg hinv hcl hw hms hs

theorem tick_slg {r r' : Raft} {b : Bool} {m : Message} (hinv : r.raftLog.Inv)
    (hcl : Prov0 r r') (h : r.tick = .ok (r', b)) : SLg r r' m := by
  by_cases hs : r.state = .leader
  · exact SLg.of_n0 (tick_leader_n hinv hs h)
  · have hel : r.tickElection = .ok (r', b) := by
      unfold Raft.tick at h
      cases hst : r.state <;> rw [hst] at h <;> first | exact h | exact absurd hst hs
    unfold Raft.tickElection at hel
    simp only at hel
    split at hel
    · cases hel; exact SLg.of_fields rfl
    · obtain ⟨r3, h3, hel⟩ := Res.bind_eq_ok hel
      cases hel
      have := stepIgnore_slg (r := ({ r with electionElapsed := 0 } : Raft)) (m := { msgType := .msgHup, frm := r.id }) hinv
        (hcl.rebase rfl rfl rfl) (fun hc => by cases hc) (by intro hc; cases hc) h3
      exact (this.retag (by intro hc; cases hc)).rebase rfl

/-- **the stored entries and the logical log after one call**, batching on or off: the stored entries
are untouched unless the call is `stabilize`; the logical log is untouched, grew by a leader's append, or
the call delivered a `MsgAppend` -/
theorem call_stob (st st' : NState) (rnd : Option Nat) (op : NodeOp) (res : OpRes)
    (hinv : st.raft.raftLog.Inv) (hcl : Prov0 st.raft st'.raft)
    (hop : op ≠ .drain ∧ ∀ m, op ≠ .rstep m)
    (hw : ∀ m, op = .step m → m.msgType = .msgAppend → MsgOk m)
    (hms : ∀ m, op = .step m → m.msgType ≠ .msgSnapshot)
    (hc : ∀ k, op ≠ .compact k)
    (hsn : st.raft.raftLog.unstable.snapshot = none)
    (h : Node.call st rnd op = .ok (res, st')) :
    SLg st.raft st'.raft (CV.opMsg op) ∨ op = .stabilize := by
  unfold Node.call at h
  have hinv' : ({ st.raft with nextRand := rnd } : Raft).raftLog.Inv := hinv
  have hcl' : Prov0 ({ st.raft with nextRand := rnd } : Raft) st'.raft := hcl.rebase rfl rfl rfl
  have ofR : ∀ {r : Raft}, st'.raft = r →
      (Prov0 ({ st.raft with nextRand := rnd } : Raft) r →
        SLg ({ st.raft with nextRand := rnd } : Raft) r (CV.opMsg op)) →
      SLg st.raft st'.raft (CV.opMsg op) ∨ op = .stabilize := fun hr hs =>
    .inl (by rw [hr]; exact (hs (by rw [← hr]; exact hcl')).rebase rfl)
  cases op with
  | tick =>
    simp only [applyOp] at h
    split at h
    · rename_i raft b heq
      cases h
      exact ofR rfl (fun hp => tick_slg hinv' hp heq)
    · cases h
    · cases h
  | step m =>
    simp only [applyOp] at h
    obtain ⟨raft, e, hx, hr⟩ := CV.unitRes_ok h
    refine ofR hr (fun hp => ?_)
    unfold RawNode.step at hx
    split at hx
    · cases hx; exact SLg.of_fields rfl
    · split at hx
      · exact step_slg hinv' hp (hw m rfl) (hms m rfl) hx
      · cases hx; exact SLg.of_fields rfl
  | rstep m => exact absurd rfl (hop.2 m)
  | propose c d =>
    simp only [applyOp] at h
    obtain ⟨raft, e, hx, hr⟩ := CV.unitRes_ok h
    exact ofR hr (fun hp => (step_slg hinv' hp (fun hc => by cases hc) (by intro hc; cases hc) hx).retag
      (by intro hc; cases hc))
  | proposeCc t c d =>
    simp only [applyOp] at h
    obtain ⟨raft, e, hx, hr⟩ := CV.unitRes_ok h
    exact ofR hr (fun hp => (step_slg hinv' hp (fun hc => by cases hc) (by intro hc; cases hc) hx).retag
      (by intro hc; cases hc))
  | readIndex c =>
    simp only [applyOp] at h
    obtain ⟨raft, hx, hr⟩ := CV.okRes_ok h
    exact ofR hr (fun hp => (stepIgnore_slg hinv' hp (fun hc => by cases hc) (by intro hc; cases hc)
      hx).retag (by intro hc; cases hc))
  | transferLeader x =>
    simp only [applyOp] at h
    obtain ⟨raft, hx, hr⟩ := CV.okRes_ok h
    exact ofR hr (fun hp => (stepIgnore_slg hinv' hp (fun hc => by cases hc) (by intro hc; cases hc)
      hx).retag (by intro hc; cases hc))
  | campaign =>
    simp only [applyOp] at h
    obtain ⟨raft, e, hx, hr⟩ := CV.unitRes_ok h
    exact ofR hr (fun hp => (step_slg hinv' hp (fun hc => by cases hc) (by intro hc; cases hc) hx).retag
      (by intro hc; cases hc))
  | ping =>
    simp only [applyOp] at h
    obtain ⟨raft, hx, hr⟩ := CV.okRes_ok h
    exact ofR hr (fun _ => SLg.of_n0 (ping_n hx N.rfl hinv'))
  | requestSnapshot =>
    simp only [applyOp] at h
    obtain ⟨raft, e, hx, hr⟩ := CV.unitRes_ok h
    exact ofR hr (fun _ => SLg.of_n0 (requestSnapshot_n hx N.rfl hinv'))
  | reportUnreachable x =>
    simp only [applyOp] at h
    obtain ⟨raft, hx, hr⟩ := CV.okRes_ok h
    exact ofR hr (fun hp => (stepIgnore_slg hinv' hp (fun hc => by cases hc) (by intro hc; cases hc)
      hx).retag (by intro hc; cases hc))
  | reportSnapshot x f =>
    simp only [applyOp] at h
    obtain ⟨raft, hx, hr⟩ := CV.okRes_ok h
    exact ofR hr (fun hp => (stepIgnore_slg hinv' hp (fun hc => by cases hc) (by intro hc; cases hc)
      hx).retag (by intro hc; cases hc))
  | applyConfChange cc =>
    simp only [applyOp] at h
    split at h
    · rename_i raft cs heq
      cases h
      exact ofR rfl (fun hp => SLg.of_sl (applyConfChange_b heq hinv') hinv' hp)
    · rename_i raft e heq
      cases h
      exact ofR rfl (fun hp => SLg.of_sl (applyConfChange_b heq hinv') hinv' hp)
    · cases h
    · cases h
  | stabilize => exact .inr rfl
  | onPersistEntries i t =>
    simp only [applyOp] at h
    obtain ⟨raft, hx, hr⟩ := CV.okRes_ok h
    exact ofR hr (fun hp => SLg.of_sl (onPersistEntries_b hinv' hx) hinv' hp)
  | persistSnap =>
    simp only [applyOp] at h
    unfold Node.persistSnap at h
    simp only [] at h
    have hsn' : ({ st.raft with nextRand := rnd } : Raft).raftLog.unstable.snapshot = none := hsn
    rw [hsn'] at h
    simp only [] at h
    cases h
    exact .inl (SLg.of_fields rfl)
  | commitApply k =>
    simp only [applyOp, Node.commitApply] at h
    split at h
    · rename_i r2 hb
      rw [Res.bind_eq_ok_iff] at hb
      obtain ⟨r1, h1, h2⟩ := hb
      have e1 : r1.raftLog = ({ st.raft with nextRand := rnd } : Raft).raftLog := by
        split at h1
        · split at h1
          · cases h1
            unfold Raft.reduceUncommittedSize
            split <;> rfl
          · cases h1; rfl
          · cases h1
        · cases h1; rfl
      have hinv1 : r1.raftLog.Inv := by rw [e1]; exact hinv
      have s2 : SLg r1 r2 (CV.opMsg (.commitApply k)) := by
        unfold Raft.commitApply at h2
        rcases commitApplyInternal_n hinv1 h2 with c | ⟨es, c⟩
        · exact SLg.of_n0 c
        · exact SLg.of_appN c
      have s12 : SLg st.raft r2 (CV.opMsg (.commitApply k)) := s2.rebase e1
      cases h
      left
      split
      · exact ⟨s12.se, s12.l.imp (fun g => g) (fun g => g.imp (fun ⟨es, c⟩ => ⟨es, ⟨c.ne, c.abs,
          c.contig, c.terms, c.last, by
            exact (Inv_store_core c.inv ({ r2.raftLog.store with
              hardState := { r2.raftLog.store.hardState with commit := k },
              confState := st.appCs }) rfl rfl).1, c.commit, c.leader⟩⟩) (fun g => g))⟩
      · exact s12
    · cases h
    · cases h
  | compact k => exact absurd rfl (hc k)
  | drain => exact absurd rfl hop.1
  | triggerSnap =>
    simp only [applyOp] at h
    cases h; exact .inl ⟨⟨rfl, rfl⟩, .inl rfl⟩
  | triggerLog b =>
    simp only [applyOp] at h
    cases h; exact .inl ⟨⟨rfl, rfl⟩, .inl rfl⟩
  | setPriority p =>
    simp only [applyOp] at h
    cases h; exact .inl (SLg.of_fields rfl)
  | setBatchAppend b =>
    simp only [applyOp] at h
    cases h; exact .inl (SLg.of_fields rfl)
  | skipBcastCommit b =>
    simp only [applyOp] at h
    cases h; exact .inl (SLg.of_fields rfl)
  | setCheckQuorum b =>
    simp only [applyOp] at h
    cases h; exact .inl (SLg.of_fields rfl)
  | adjustMaxInflight id cap =>
    simp only [applyOp] at h
    obtain ⟨raft, hx, hr⟩ := CV.okRes_ok h
    exact ofR hr (fun _ => SLg.of_n0 (adjustMaxInflightMsgs_n hx N.rfl hinv'))
  | maybeFreeInflightBuffers =>
    simp only [applyOp] at h
    cases h; exact .inl (SLg.of_fields rfl)
  | enableGroupCommit b =>
    simp only [applyOp] at h
    obtain ⟨raft, hx, hr⟩ := CV.okRes_ok h
    exact ofR hr (fun hp => SLg.of_sl (enableGroupCommit_b hx hinv') hinv' hp)
  | assignCommitGroups v =>
    simp only [applyOp] at h
    obtain ⟨raft, hx, hr⟩ := CV.okRes_ok h
    exact ofR hr (fun hp => SLg.of_sl (assignCommitGroups_b hx hinv') hinv' hp)
  | clearCommitGroup =>
    simp only [applyOp] at h
    cases h; exact .inl (SLg.of_fields rfl)
  | checkGroupCommitConsistent =>
    simp only [applyOp] at h
    split at h
    · cases h; exact .inl (SLg.of_fields rfl)
    · cases h; exact .inl (SLg.of_fields rfl)
    · cases h
    · cases h
  | setMaxApplyUnpersistedLogLimit x =>
    simp only [applyOp] at h
    cases h; exact .inl ⟨⟨rfl, rfl⟩, .inl rfl⟩
  | setMaxCommittedSizePerReady x =>
    simp only [applyOp] at h
    cases h; exact .inl (SLg.of_fields rfl)
  | onEntriesFetched to term aggr =>
    rcases CV.onEntriesFetched_ok h with h | ⟨-, hld, -, raft, hx, h⟩
    · cases h; exact .inl (SLg.of_fields rfl)
    · cases h
      rcases hx with hx | hx
      · exact ofR rfl (fun hp => SLg.of_sl (.inr ⟨hld, sendAppendAggressively_l hx (L.rfl hld)⟩) hinv' hp)
      · exact ofR rfl (fun hp => SLg.of_sl (.inr ⟨hld, sendAppend_l hx (L.rfl hld)⟩) hinv' hp)

end Bt
end Raft
end RaftModel
