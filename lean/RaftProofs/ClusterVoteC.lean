import RaftProofs.ClusterVoteB
import RaftProps.C02b

/-!
Cluster-level election safety, helper lemmas part C: the anchored per-call invariant `VInv a m r`
("`r` is an intermediate state of a call that started in `a` with input message `m`") and its
preservation by the role changes, `poll`, `campaign`, `hup`.
-/
namespace RaftModel
namespace Raft
namespace CV
open VoteOb

/-- lower bound of the in-memory `(term, vote)`: a later term, or term `t` with the vote cast for `v` -/
def Ge (r : Raft) (t v : Nat) : Prop := t < r.term ∨ (r.term = t ∧ r.vote = v)

/-- … for an actual candidate id (`0` is "no vote") -/
def GeV (r : Raft) (t v : Nat) : Prop := v ≠ 0 → Ge r t v

/-- what a call may do to `(term, vote)`: raise the term, or keep it and keep the vote or cast it -/
def TV (a r : Raft) : Prop := a.term < r.term ∨ (r.term = a.term ∧ (r.vote = a.vote ∨ a.vote = 0))

theorem TV.refl (r : Raft) : TV r r := Or.inr ⟨rfl, Or.inl rfl⟩

theorem TV.trans {a b c : Raft} (h1 : TV a b) (h2 : TV b c) : TV a c := by
  unfold TV at *
  rcases h1 with h1 | ⟨h1, h1'⟩ <;> rcases h2 with h2 | ⟨h2, h2'⟩
  · left; omega
  · left; omega
  · left; omega
  · right
    refine ⟨h2.trans h1, ?_⟩
    rcases h1' with e | e
    · rcases h2' with f | f
      · exact Or.inl (f.trans e)
      · right; rw [← e]; exact f
    · exact Or.inr e

theorem TV.le {a r : Raft} (h : TV a r) : a.term ≤ r.term := by
  rcases h with h | ⟨h, _⟩ <;> omega

theorem TV.of_eq {a r : Raft} (h1 : r.term = a.term) (h2 : r.vote = a.vote) : TV a r :=
  Or.inr ⟨h1, Or.inl h2⟩

theorem VF.tv {r r' : Raft} (h : VF r r') : TV r r' := TV.of_eq h.term h.vote

theorem GeV.mono {r r' : Raft} {t v : Nat} (h : GeV r t v) (htv : TV r r') : GeV r' t v := by
  intro hv
  have := h hv
  unfold Ge TV at *
  rcases htv with h1 | ⟨h1, h2⟩
  · rcases this with g | ⟨g, _⟩
    · left; omega
    · left; omega
  · rcases this with g | ⟨g, g'⟩
    · left; omega
    · right
      refine ⟨h1.trans g, ?_⟩
      rcases h2 with e | e
      · exact e.trans g'
      · exact absurd (g'.symm.trans e) hv

/-- the delivered message is a granted real-vote response of `j` for term `t` (or carries no term) -/
def MBack (m : Message) (t j : Nat) : Prop :=
  m.msgType = .msgRequestVoteResponse ∧ m.reject = false ∧ m.frm = j ∧ (m.term = t ∨ m.term = 0)

/-- where a recorded grant of `j` for a candidate of term `t` comes from: the own vote, the message of
this call, or the record the call started with -/
def Backed (a : Raft) (m : Message) (t j : Nat) : Prop :=
  j = a.id ∨ MBack m t j ∨ (a.state = .candidate ∧ a.term = t ∧ (j, true) ∈ a.prs.votes)

/-- a real-vote message queued during the call -/
def Fresh (a : Raft) (m : Message) (r : Raft) (x : Message) : Prop :=
  x.frm = a.id ∧ x.term ≠ 0 ∧
  (x.msgType = .msgRequestVote →
    m.msgType ≠ .msgRequestVote ∧ a.term < x.term ∧ GeV r x.term a.id) ∧
  (x.msgType = .msgRequestVoteResponse →
    m.msgType = .msgRequestVote ∧ x.to = m.frm ∧ x.term = m.term ∧
    (a.term < x.term ∨ (a.term = x.term ∧ (a.vote = 0 ∨ a.vote = x.to))) ∧ GeV r x.term x.to)

theorem Fresh.mono {a r r' : Raft} {m x : Message} (h : Fresh a m r x) (htv : TV r r') :
    Fresh a m r' x :=
  ⟨h.1, h.2.1, fun hx => ⟨(h.2.2.1 hx).1, (h.2.2.1 hx).2.1, (h.2.2.1 hx).2.2.mono htv⟩,
    fun hx => ⟨(h.2.2.2 hx).1, (h.2.2.2 hx).2.1, (h.2.2.2 hx).2.2.1, (h.2.2.2 hx).2.2.2.1,
      (h.2.2.2 hx).2.2.2.2.mono htv⟩⟩

/-- the per-call invariant: `r` is reached from `a` inside one call with input message `m` -/
structure VInv (a : Raft) (m : Message) (r : Raft) : Prop where
  id : r.id = a.id
  hs : r.raftLog.store.hardState = a.raftLog.store.hardState
  tv : TV a r
  pk : r.promotable = a.promotable ∨ r.promotable = Joint.contains r.prs.voters r.id
  nf : r.state ≠ .follower → a.state ≠ .follower ∨ r.promotable = true
  msgs : ∀ x ∈ r.msgs, isRVm x = true → x ∈ a.msgs ∨ Fresh a m r x
  cand : r.state = .candidate → ∀ j, (j, true) ∈ r.prs.votes → Backed a m r.term j
  lead : r.state = .leader →
    (a.state = .leader ∧ a.term = r.term) ∨
    ∃ Q, IsJointQuorum r.prs.voters Q ∧ ∀ j ∈ Q, Backed a m r.term j

theorem VInv.refl (a : Raft) (m : Message) : VInv a m a :=
  ⟨rfl, rfl, TV.refl a, Or.inl rfl, fun h => Or.inl h, fun _ hx _ => Or.inl hx,
   fun hc _ hj => Or.inr (Or.inr ⟨hc, rfl, hj⟩),
   fun hl => Or.inl ⟨hl, rfl⟩⟩

theorem VInv.vf {a r r' : Raft} {m : Message} (h : VInv a m r) (hf : VF r r') : VInv a m r' := by
  refine ⟨hf.id.trans h.id, hf.hs.trans h.hs, h.tv.trans hf.tv, ?_, ?_, ?_, ?_, ?_⟩
  · rw [hf.promotable, hf.voters, hf.id]; exact h.pk
  · rw [hf.state, hf.promotable]; exact h.nf
  · intro x hx hrv
    have : x ∈ rvOf r'.msgs := mem_rvOf.2 ⟨hx, hrv⟩
    rw [hf.rv] at this
    rcases h.msgs x (mem_rvOf.1 this).1 hrv with g | g
    · exact Or.inl g
    · exact Or.inr (g.mono hf.tv)
  · rw [hf.state, hf.term, hf.votes]; exact h.cand
  · rw [hf.state, hf.term, hf.voters]; exact h.lead

/-- lifting a `VF` postcondition -/
theorem VInv.post_vf {a r : Raft} {m : Message} {x : Res Raft} (h : VInv a m r)
    (hx : Res.Post (fun r' => VF r r') x) : Res.Post (fun r' => VInv a m r') x :=
  Res.post_mono hx (fun _ hf => h.vf hf)

/-- the messages of `r'` are those of `r`, after a step that keeps or raises `(term, vote)` -/
theorem VInv.msgs_keep {a r r' : Raft} {m : Message} (h : VInv a m r) (htv : TV r r')
    (hm : r'.msgs = r.msgs) : ∀ x ∈ r'.msgs, isRVm x = true → x ∈ a.msgs ∨ Fresh a m r' x := by
  intro x hx hrv
  rw [hm] at hx
  rcases h.msgs x hx hrv with g | g
  · exact Or.inl g
  · exact Or.inr (g.mono htv)

/-! ### `reset` and the role changes -/

theorem reset_promotable (r : Raft) (t : Nat) : (r.reset t).promotable = r.promotable := by
  unfold reset
  simp only [mapProgress, abortLeaderTransfer, resetRandomizedElectionTimeout,
    ProgressTracker.resetVotes]
  split <;> rfl

theorem becomeFollower_promotable (r : Raft) (t l : Nat) :
    (r.becomeFollower t l).promotable = r.promotable := by
  unfold becomeFollower; exact reset_promotable r t

theorem becomeFollower_tv (r : Raft) (t l : Nat) (ht : r.term ≤ t) : TV r (r.becomeFollower t l) := by
  obtain ⟨h1, h2⟩ := becomeFollower_term_vote r t l
  unfold TV
  by_cases e : r.term = t
  · right; refine ⟨h1.trans e.symm, Or.inl ?_⟩
    rw [h2]; simp [e]
  · left; rw [h1]; omega

/-- `become_follower(t, l)` with `t` not below the current term -/
theorem VInv.becomeFollower {a r : Raft} {m : Message} (h : VInv a m r) (t l : Nat)
    (ht : r.term ≤ t) : VInv a m (r.becomeFollower t l) := by
  have hk := c02_becomeFollower_keep r t l
  obtain ⟨f1, _, _, _, _⟩ := c02_becomeFollower_fields r t l
  have htv := becomeFollower_tv r t l ht
  refine ⟨hk.id.trans h.id, ?_, h.tv.trans htv, ?_, ?_, h.msgs_keep htv hk.msgs, ?_, ?_⟩
  · rw [hk.log.store]; exact h.hs
  · rw [becomeFollower_promotable]
    unfold ProgressTracker.voters; rw [hk.conf, hk.id]; exact h.pk
  · intro hne; exact absurd f1 hne
  · intro hc; rw [f1] at hc; cases hc
  · intro hc; rw [f1] at hc; cases hc

theorem becomeCandidate_vinv {a r : Raft} {m : Message} (h : VInv a m r)
    (hp : a.state ≠ .follower ∨ r.promotable = true) :
    Res.Post (fun r' => VInv a m r' ∧ TV r r' ∧ r'.state = .candidate ∧ r'.term = r.term + 1 ∧
      r'.vote = a.id ∧ r'.prs.votes = [] ∧ r'.promotable = r.promotable) r.becomeCandidate := by
  apply Res.post_intro
  intro r' hb
  obtain ⟨hk, e1, e2, e3, e4, _⟩ := c02_becomeCandidate_spec hb
  have hpr : r'.promotable = r.promotable := by
    unfold Raft.becomeCandidate at hb
    split at hb
    · cases hb
    · split at hb
      · cases hb
      · cases hb; exact reset_promotable r _
  have htv : TV r r' := Or.inl (by omega)
  refine ⟨⟨hk.id.trans h.id, ?_, h.tv.trans htv, ?_, ?_, h.msgs_keep htv hk.msgs, ?_, ?_⟩,
    htv, e3, e1, e2.trans h.id, e4, hpr⟩
  · rw [hk.log.store]; exact h.hs
  · rw [hpr]; unfold ProgressTracker.voters; rw [hk.conf, hk.id]; exact h.pk
  · intro _; rw [hpr]; exact hp
  · intro _ j hj
    rw [e4] at hj; cases hj
  · intro hc; rw [e3] at hc; cases hc

theorem becomePreCandidate_vinv {a r : Raft} {m : Message} (h : VInv a m r)
    (hp : a.state ≠ .follower ∨ r.promotable = true) :
    Res.Post (fun r' => VInv a m r' ∧ TV r r' ∧ r'.state = .preCandidate ∧ r'.term = r.term ∧
      r'.prs.votes = [] ∧ r'.promotable = r.promotable) r.becomePreCandidate := by
  apply Res.post_intro
  intro r' hb
  obtain ⟨hk, e1, e2, e3, e4, _⟩ := c02_becomePreCandidate_spec hb
  have hpr : r'.promotable = r.promotable := by
    unfold Raft.becomePreCandidate at hb
    split at hb
    · cases hb
    · cases hb; rfl
  have htv : TV r r' := TV.of_eq e1 e2
  refine ⟨⟨hk.id.trans h.id, ?_, h.tv.trans htv, ?_, ?_, h.msgs_keep htv hk.msgs, ?_, ?_⟩,
    htv, e3, e1, e4, hpr⟩
  · rw [hk.log.store]; exact h.hs
  · rw [hpr]; unfold ProgressTracker.voters; rw [hk.conf, hk.id]; exact h.pk
  · intro _; rw [hpr]; exact hp
  · intro hc; rw [e3] at hc; cases hc
  · intro hc; rw [e3] at hc; cases hc

/-- `become_leader`, given a joint quorum of backed grants for the candidate's term -/
theorem becomeLeader_vinv {a r : Raft} {m : Message} (h : VInv a m r)
    (hQ : ∃ Q, IsJointQuorum r.prs.voters Q ∧ ∀ j ∈ Q, Backed a m r.term j) :
    Res.Post (fun r' => VInv a m r' ∧ TV r r') r.becomeLeader := by
  have key : ∀ (r1 r2 : Raft) (b : Bool), r1.appendEntry [{}] = .ok (r2, b) →
      r.state ≠ .follower → r1.id = r.id → r1.raftLog = r.raftLog →
      r1.term = r.term → r1.vote = r.vote → r1.state = .leader → r1.promotable = r.promotable →
      r1.prs.conf = r.prs.conf → r1.msgs = r.msgs → VInv a m r2 ∧ TV r r2 := by
    intro r1 r2 b heq hnf c1 c2 c3 c4 c5 c6 c7 c8
    have cv : r1.prs.voters = r.prs.voters := by unfold ProgressTracker.voters; rw [c7]
    have htv : TV r r1 := TV.of_eq c3 c4
    have h1 : VInv a m r1 := by
      refine ⟨c1.trans h.id, by rw [c2]; exact h.hs, h.tv.trans htv, ?_, ?_,
        h.msgs_keep htv c8, ?_, ?_⟩
      · rw [c6, cv, c1]; exact h.pk
      · intro _; rw [c6]; exact h.nf hnf
      · intro hc; rw [c5] at hc; cases hc
      · intro _
        right
        obtain ⟨Q, q1, q2⟩ := hQ
        exact ⟨Q, by rw [cv]; exact q1, by rw [c3]; exact q2⟩
    have hf := Res.Post.of_eq (P := fun x => VF r1 x.1) (appendEntry_vf _ _) heq
    exact ⟨h1.vf hf, htv.trans hf.tv⟩
  unfold Raft.becomeLeader
  split
  · trivial
  · rename_i hnf
    dsimp only
    split
    · trivial
    · split
      · trivial
      · rename_i pr _
        obtain ⟨k1, k2, _, k4, k5, _, k7, _⟩ := c02_reset_fields r r.term
        obtain ⟨t1, t2⟩ := reset_term_vote r r.term
        have t2' : (r.reset r.term).vote = r.vote := by rw [t2]; simp
        have hpr := reset_promotable r r.term
        split
        · rename_i r2 heq
          exact key _ _ _ heq hnf k1 k2 t1 t2' rfl hpr k5 k7
        · trivial
        · trivial
        · trivial

/-! ### the vote record -/

theorem mem_insert {α : Type} (k : Nat) (v : α) :
    ∀ (l : List (Nat × α)) (p : Nat × α), p ∈ NatMap.insert k v l → p = (k, v) ∨ p ∈ l := by
  intro l
  induction l with
  | nil => intro p hp; simp [NatMap.insert] at hp; exact Or.inl hp
  | cons q rest ih =>
    intro p hp
    obtain ⟨k', v'⟩ := q
    unfold NatMap.insert at hp
    split at hp
    · rcases List.mem_cons.1 hp with e | e
      · exact Or.inl e
      · exact Or.inr e
    · split at hp
      · rcases List.mem_cons.1 hp with e | e
        · exact Or.inl e
        · exact Or.inr (List.mem_cons_of_mem _ e)
      · rcases List.mem_cons.1 hp with e | e
        · exact Or.inr (by rw [e]; exact List.mem_cons_self)
        · rcases ih p e with f | f
          · exact Or.inl f
          · exact Or.inr (List.mem_cons_of_mem _ f)

theorem mem_recordVote (t : ProgressTracker) (id : Nat) (v : Bool) (j : Nat)
    (h : (j, true) ∈ (t.recordVote id v).votes) : (j, true) ∈ t.votes ∨ (j = id ∧ v = true) := by
  unfold ProgressTracker.recordVote at h
  split at h
  · exact Or.inl h
  · rcases mem_insert id v t.votes (j, true) h with e | e
    · right
      injection e with e1 e2
      exact ⟨e1, e2.symm⟩
    · exact Or.inl e

theorem mem_granters {votes : List (Nat × Bool)} {j : Nat}
    (h : j ∈ RaftProps.C02.granters votes) : (j, true) ∈ votes := by
  unfold RaftProps.C02.granters at h
  simp only [List.mem_map, List.mem_filter] at h
  obtain ⟨⟨j', b⟩, ⟨h1, h2⟩, h3⟩ := h
  simp only at h2 h3
  subst h2 h3
  exact h1

/-- recording a vote: a `VF`-like step that only touches the vote record -/
theorem VInv.voted {a r : Raft} {m : Message} (h : VInv a m r) (frm : Nat) (v : Bool)
    (hfv : r.state = .candidate → v = true → Backed a m r.term frm) : VInv a m (voted r frm v) := by
  have hconf : (VoteOb.voted r frm v).prs.conf = r.prs.conf := c02_recordVote_conf _ _ _
  have hvoters : (VoteOb.voted r frm v).prs.voters = r.prs.voters := by
    unfold ProgressTracker.voters; rw [hconf]
  refine ⟨h.id, h.hs, h.tv, ?_, h.nf, h.msgs, ?_, ?_⟩
  · rw [hvoters]; exact h.pk
  · intro hc j hj
    rcases mem_recordVote r.prs frm v j hj with e | ⟨e1, e2⟩
    · exact h.cand hc j e
    · rw [e1]; exact hfv hc e2
  · intro hl
    rw [hvoters]; exact h.lead hl

end CV
end Raft
end RaftModel
