#!/bin/sh
# Run once in /verif after a fresh restore, offline: builds the Lean project (model, proofs,
# property theorems, native driver) and the Rust harness against /repo.  Nothing is fetched.
set -e
cd "$(dirname "$0")"
export CARGO_NET_OFFLINE=true
mkdir -p .build/traces .build/cache .build/audit evidence replays
ln -sfn "${VERIF_REPO:-/repo}" .build/repo
(cd lean && lake build 2>&1 | tail -5)
(cd harness && cargo build --release --offline 2>&1 | tail -3)
echo "setup done"
