#!/bin/sh
# Run once in /verif after a fresh restore, offline: builds the Lean project (model, proofs,
# property theorems, native driver) and the Rust harness against /repo.  Nothing is fetched.
set -e
cd "$(dirname "$0")"
export CARGO_NET_OFFLINE=true
mkdir -p .build/traces .build/cache .build/audit evidence replays
ln -sfn "${VERIF_REPO:-/repo}" .build/repo
(cd lean && lake build > ../.build/lake-setup.log 2>&1) || { tail -30 .build/lake-setup.log; echo "setup: lake build failed"; exit 1; }
tail -2 .build/lake-setup.log
(cd harness && cargo build --release --offline > ../.build/cargo-setup.log 2>&1) || { tail -30 .build/cargo-setup.log; echo "setup: cargo build failed"; exit 1; }
tail -1 .build/cargo-setup.log
echo "setup done"
