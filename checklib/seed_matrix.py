#!/usr/bin/env python3
"""Runs every seeded change in /verif/seeded against the check of its property (quick tier) and
records what happened: seeded/MATRIX.json and seeded/MATRIX.md (the table quoted in DESIGN.md).

Development-time tool, not a registered check: it applies each patch to /repo's working tree with
`git apply`, runs the check, and restores the tree with `git checkout -- .` (never commits).
usage: python3 checklib/seed_matrix.py [name-prefix ...]"""
import glob, json, os, re, subprocess, sys, time

VERIF = "/verif"
REPO = "/repo"


def sh(cmd, **kw):
    return subprocess.run(cmd, shell=True, text=True, stdout=subprocess.PIPE, stderr=subprocess.STDOUT, **kw)


def main():
    want = sys.argv[1:]
    out = {}
    mpath = os.path.join(VERIF, "seeded", "MATRIX.json")
    if os.path.exists(mpath):
        out = json.load(open(mpath))
    assert sh("git -C %s status --porcelain" % REPO).stdout.strip() == "", "/repo working tree is not clean"
    for d in sorted(glob.glob(os.path.join(VERIF, "seeded", "*"))):
        name = os.path.basename(d)
        if not os.path.isdir(d) or not os.path.exists(os.path.join(d, "meta.json")) or (want and not any(name.startswith(w) for w in want)):
            continue
        meta = json.load(open(os.path.join(d, "meta.json")))
        prop = meta["property"]
        patch = os.path.join(d, "patch.diff.rebased")
        if not os.path.exists(patch):
            patch = os.path.join(d, "patch.diff")
        r = sh("git -C %s apply %s" % (REPO, patch))
        if r.returncode != 0:
            out[name] = {"property": prop, "result": "patch does not apply to the current tree: " + r.stdout.strip()[:200]}
            continue
        try:
            t0 = time.time()
            r = sh("cd %s && ./check %s --tier quick" % (VERIF, prop))
            dt = time.time() - t0
            v = [l for l in r.stdout.split("\n") if l.startswith("VIOLATION")]
            lines = r.stdout.strip().split("\n")
            detail = ""
            for i, l in enumerate(lines):
                if l.startswith("VIOLATION") and i + 1 < len(lines):
                    detail = lines[i + 1].strip()[:300]
            if v:
                kind = "no-failing-input-found" if v[0].rstrip().endswith("no-failing-input-found") else "concrete input/history"
                out[name] = {"property": prop, "result": "detected", "kind": kind, "line": v[0], "detail": detail, "seconds": round(dt), "exit": r.returncode}
            else:
                out[name] = {"property": prop, "result": "MISSED", "tail": lines[-1][:300], "seconds": round(dt), "exit": r.returncode}
        finally:
            sh("git -C %s checkout -- ." % REPO)
        print(name, out[name].get("result"), out[name].get("kind", ""), out[name].get("seconds", ""), flush=True)
        json.dump(out, open(mpath, "w"), indent=1)
    with open(os.path.join(VERIF, "seeded", "MATRIX.md"), "w") as h:
        h.write("| seeded change | property | `./check <property> --tier quick` | s |\n|---|---|---|---|\n")
        for name in sorted(out):
            o = out[name]
            if o["result"] == "detected":
                res = "VIOLATION, %s: %s" % (o["kind"], o["detail"].replace("|", "/")[:170])
            else:
                res = o["result"] + " " + o.get("tail", "")[:120]
            h.write("| %s | %s | %s | %s |\n" % (name, o["property"], res, o.get("seconds", "")))
    assert sh("git -C %s status --porcelain" % REPO).stdout.strip() == "", "/repo working tree was not restored"


if __name__ == "__main__":
    main()
