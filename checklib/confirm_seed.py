#!/usr/bin/env python3
"""development-time: confirm a seeded change delivered by a sub-agent in a scratch worktree
usage: confirm_seed.py <worktree> <name>   -> on success copies patch.diff, demo, meta.json (+ confirmed_by_me) to seeded/<name>/
checks: (a) the workspace suite with the change fails nowhere but in the demonstration target, (b) the demonstration
fails with the change, (c) passes without it."""
import json, os, re, shutil, subprocess, sys, glob

def sh(cmd, cwd):
    return subprocess.run(cmd, shell=True, cwd=cwd, text=True, stdout=subprocess.PIPE, stderr=subprocess.STDOUT,
                          env=dict(os.environ, CARGO_NET_OFFLINE="true"))

wt, name = sys.argv[1], sys.argv[2]
meta = json.load(open(os.path.join(wt, "meta.json")))
patch = os.path.join(wt, "patch.diff")
# make sure the change is applied
r = sh("git apply --check -R patch.diff", wt)
if r.returncode != 0:
    r2 = sh("git apply patch.diff", wt)
    assert r2.returncode == 0, "patch neither applied nor applicable: " + r.stdout + r2.stdout
demos = [os.path.basename(f)[:-3] for f in glob.glob(os.path.join(wt, "harness/tests/seeded*.rs"))]
r = sh("cargo test --workspace --no-fail-fast --offline 2>&1", wt)
res = re.findall(r"test result: (\w+)\. (\d+) passed; (\d+) failed", r.stdout)
passed = sum(int(a) for _, a, _ in res); failed = sum(int(b) for _, _, b in res)
failing_targets = re.findall(r"error: test failed, to rerun pass `(.*?)`", r.stdout)
other = [t for t in failing_targets if not any(d in t for d in demos)]
suite_ok = not other and "could not compile" not in r.stdout
demo_cmd = meta["demo_cmd"]
if "cd " not in demo_cmd:
    demo_cmd = "cd %s && %s" % (wt, demo_cmd)
w = sh(demo_cmd + " 2>&1", wt)
sh("git apply -R patch.diff", wt)
wo = sh(demo_cmd + " 2>&1", wt)
sh("git apply patch.diff", wt)
def last(o):
    l = [x for x in o.stdout.split("\n") if "test result" in x or "panicked" in x or "DEFECT" in x or "error" in x.lower()]
    return " | ".join(l[:3])[:500]
ok = suite_ok and w.returncode != 0 and wo.returncode == 0
meta["confirmed_by_me"] = "suite_with_change: %d passed %d failed (failing targets: %s; others than the demonstration: %s) | demo_with rc=%d: %s | demo_without rc=%d: %s" % (
    passed, failed, failing_targets, other, w.returncode, last(w), wo.returncode, last(wo))
meta["round"] = int(os.environ.get("SEED_ROUND", "5"))
meta["origin"] = "independent sub-agent (round %s)" % os.environ.get("SEED_ROUND", "5") + " given only the property text, one-sentence summaries of earlier seeds to avoid, a focus hint (code area) and a scratch worktree of /repo (HEAD incl. the fix: commits); nothing from /verif"
print(("CONFIRMED " if ok else "NOT-CONFIRMED ") + name + " :: " + meta["confirmed_by_me"])
if ok:
    d = os.path.join("/verif/seeded", name)
    os.makedirs(d, exist_ok=True)
    shutil.copy(patch, os.path.join(d, "patch.diff"))
    for f in glob.glob(os.path.join(wt, "harness/tests/seeded*.rs")):
        shutil.copy(f, os.path.join(d, "demo.rs"))
    json.dump(meta, open(os.path.join(d, "meta.json"), "w"), indent=1)
sys.exit(0 if ok else 1)
