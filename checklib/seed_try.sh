#!/bin/sh
# development-time: run checks against a scratch worktree of raft-rs WITHOUT touching /repo.
# usage: checklib/seed_try.sh <worktree-dir> <tier> <prop> [<prop> ...]
# Works in a private copy of /verif under /tmp/vtry/<basename> (own .build, own symlink), removed afterwards
# unless KEEP=1.  Prints one TRY line per property.
wt=$(realpath "$1"); tier=$2; shift; shift
name=$(basename "$wt")
dst=/tmp/vtry/$name.$$
mkdir -p /tmp/vtry
rsync -a --exclude .git --exclude 'replays/*' --exclude '.build/cache' --exclude '.build/traces' /verif/ "$dst"/
cd "$dst"
mkdir -p .build/cache .build/traces replays
for p in "$@"; do
  s=$(date +%s)
  out=$(VERIF_REPO="$wt" ./check "$p" --tier "$tier" 2>&1); rc=$?
  e=$(date +%s)
  echo "TRY $name $p rc=$rc $((e-s))s :: $(echo "$out" | grep -A1 -E '^VIOLATION|^KNOWN-FINDING|ERROR' | head -4 | cut -c1-400 | tr '\n' ' ')"
done
cd /; [ -n "$KEEP" ] || rm -rf "$dst"
