"""Per-property configuration of /verif/check: generators per tier, evidence texts."""

LEAN_TB = [
    "Lean 4.33.0 kernel (type-checks every proof term); axioms per theorem listed under coverage.theorems, required to be within {propext, Classical.choice, Quot.sound}",
    "no sorry/admit/axiom/native_decide/bv_decide/implemented_by/unsafe in any Lean source (grep over comment-stripped sources on every run)",
    "the hand-written Lean model RaftModel.* is tied to /repo's current source by the differential correspondence check (Rust harness rvh drives the real code in-process; native Lean driver rvm re-executes every operation on the model; observations compared line by line); its strength is bounded by the generators, whose distribution is reported in this file",
    "Nat models u64/usize (no wrap-around of counters)",
]

CLUSTER_TB = LEAN_TB[:2] + [
    "the abstract protocol P (lean/RaftModel/Proto.lean) is tied to /repo's current source by trace validation on every run: the cluster harness (rvh cluster: real RawNode instances, contract-abiding application with sync/async persistence, durable images, crash/restart, snapshots/compaction, adversarial seeded scheduler) decomposes every library call into P events; the native Lean driver applies applyEvent (the very function the theorems are about) to every event and compares the P state of the node with the implementation's view after every call; an event P rejects or a differing view is reported",
    "the harness's decomposition of calls into P events and its model of the application/storage (DESIGN.md 4.3 A1-A6) are trusted; so is the Rust side of the monitors",
    "theorems named *_obligation are read off P's step function (what every step must satisfy); the global theorems hold for every history of P (Reach), membership changes included: the voter configuration is a parameter of P's win / commitLeader / read events",
    "the driver runs the configuration-aware layer PC (lean/RaftModel/ProtoCfg.lean) on top of P: win / commitLeader carry the node's applied index and are checked against LOCAL conditions only (the configuration is the one of the version given by the membership-change entries up to the applied index; at most one membership-change entry beyond the applied index in a winner's log / in the prefix a leader commits; the version table filled by the applyconf events is deterministic and stepwise adjacent); RaftProofs/ProtoCfg.lean (win_adj_redundant, commit_adj_redundant, winC_accepts_iff, commitC_accepts_iff) proves that on every PC-reachable state P's cross-history configuration guards (adjOk between a leader commit and a later election, or the prefix exhibited) are implied, so every PC history is a P history (reach_base) and the theorems need no assumption relating configurations; validated at run time only: those local conditions on the implementation's histories, and for reads the guard rdCfgOk of P's resp / rstate events",
    "Nat models u64/usize (no wrap-around of counters)",
]

CLUSTER_PROFILES = {
    "quick": [
        {"name": "fixed configuration", "args": ["--seed", "{seed}", "--runs", "40", "--steps", "3000"]},
        {"name": "membership changes", "args": ["--seed", "{seed}", "--runs", "30", "--steps", "3000", "--reconfig"]},
        {"name": "single voter + learner", "args": ["--seed", "{seed}", "--runs", "10", "--steps", "1500", "--voters", "1", "--learners", "1"]},
    ],
    "thorough": [
        {"name": "fixed configuration", "args": ["--seed", "{seed}", "--runs", "400", "--steps", "5000"]},
        {"name": "membership changes", "args": ["--seed", "{seed}", "--runs", "300", "--steps", "5000", "--reconfig"]},
        {"name": "single voter + learners", "args": ["--seed", "{seed}", "--runs", "60", "--steps", "3000", "--voters", "1", "--learners", "2"]},
        {"name": "two voters", "args": ["--seed", "{seed}", "--runs", "60", "--steps", "3000", "--voters", "2", "--learners", "1"]},
    ],
}

CLUSTER_RULE = "simulated clusters of real RawNodes (1-5 voters, 0-2 learners, optional membership changes incl. joint configurations; knobs pre_vote/check_quorum/batch_append/max_inflight/max_size_per_msg/max_committed_size_per_ready/skip_bcast_commit drawn per run) under a seeded adversarial scheduler (tick, deliver/duplicate/drop any in-flight message, propose, read_index, transfer_leader, campaign, request_snapshot/report_*, ready with sync or async persistence and delayed fsync, compaction, crash, restart, healthy bursts); a case is one P event or one node view validated by the Lean driver; distinct = distinct event texts (kind + arguments); every event changes or witnesses protocol state, so all are non-trivial"

CLUSTER_ASSUMPTIONS = [
    "the application follows the Ready/advance contract A1-A6 of DESIGN.md 4.3 (atomic, in-order persistence of a Ready; persisted messages released only after on_persist_ready; commit index durable before applying; compaction only up to the applied index keeping the boundary term)",
    "every delivered message was released by some node of the cluster",
]


def cluster(monitors, p_events, view_fields=(), extra_profiles=None, component=None, rule_extra=""):
    profiles = CLUSTER_PROFILES
    if extra_profiles:
        profiles = {t: CLUSTER_PROFILES[t] + extra_profiles[t] for t in CLUSTER_PROFILES}
    d = {"kind": "cluster", "profiles": profiles, "monitors": list(monitors), "p_events": list(p_events),
         "view_fields": list(view_fields), "rule": CLUSTER_RULE + rule_extra, "trusted_base": CLUSTER_TB, "assumptions": CLUSTER_ASSUMPTIONS}
    if component:
        d["component"] = component
    return d


def cluster_only(monitors, profiles, component=None, rule_extra=""):
    d = cluster(monitors, [], [], component=component, rule_extra=rule_extra)
    d["profiles"] = profiles
    return d


LOCKSTEP_PROFILES = {
    "quick": [
        {"name": "lock-step majority vs adversarial rest, 3 voters + learner", "args": ["--seed", "{seed}", "--runs", "15", "--steps", "2400", "--lockstep", "--voters", "3", "--learners", "1"]},
        {"name": "lock-step majority vs adversarial rest, 5 voters", "args": ["--seed", "{seed}", "--runs", "15", "--steps", "2400", "--lockstep", "--voters", "5", "--learners", "0"]},
    ],
    "thorough": [
        {"name": "lock-step majority vs adversarial rest, 3 voters + learner", "args": ["--seed", "{seed}", "--runs", "120", "--steps", "4000", "--lockstep", "--voters", "3", "--learners", "1"]},
        {"name": "lock-step majority vs adversarial rest, 4 voters", "args": ["--seed", "{seed}", "--runs", "80", "--steps", "4000", "--lockstep", "--voters", "4", "--learners", "0"]},
        {"name": "lock-step majority vs adversarial rest, 5 voters + learner", "args": ["--seed", "{seed}", "--runs", "120", "--steps", "4000", "--lockstep", "--voters", "5", "--learners", "1"]},
    ],
}
STABILISE_PROFILES = {
    "quick": [
        {"name": "fault prefix + fair suffix, fixed configuration", "args": ["--seed", "{seed}", "--runs", "40", "--steps", "3000", "--stabilise"]},
        {"name": "fault prefix + fair suffix, membership changes", "args": ["--seed", "{seed}", "--runs", "40", "--steps", "3000", "--reconfig", "--stabilise"]},
    ],
    "thorough": [
        {"name": "fault prefix + fair suffix, fixed configuration", "args": ["--seed", "{seed}", "--runs", "300", "--steps", "5000", "--stabilise"]},
        {"name": "fault prefix + fair suffix, membership changes", "args": ["--seed", "{seed}", "--runs", "300", "--steps", "5000", "--reconfig", "--stabilise"]},
        {"name": "fault prefix + fair suffix, two voters", "args": ["--seed", "{seed}", "--runs", "80", "--steps", "3000", "--voters", "2", "--learners", "1", "--stabilise"]},
    ],
}
STABILISE_RULE = "; every run ends with C10's fair suffix: crashed members are restarted, nodes that are no longer members are stopped, and then in every round every node handles its Ready and persists at once, every message is delivered, lost snapshots are reported failed by the application, and everybody ticks once; within 60 election timeouts there must be exactly one leader with every member's log, commit index and applied index equal to its own and no joint configuration left, and then a new proposal must be applied on every running member within 6 election timeouts (the verdict is skipped when some voter set of the configuration has no running majority, e.g. an added node that was never started)"
LOCKSTEP_RULE = "; plus the lock-step scenario of C16: pre_vote and check_quorum on all nodes, after a healthy warm-up a leader and enough voters for a majority tick together and exchange / persist every message at once, while the remaining nodes are ticked in bursts, isolated and rejoined, crashed and restarted, campaign, everything they send or receive is lost, duplicated, delayed or reordered, and copies of all (pre-)vote traffic seen so far (from the warm-up elections on) are re-delivered to anybody as stale duplicates; after every round the leader must still lead the same term and every member of the majority must still be in that term (no transfer is requested)"


PROPS = {
    # the theorems of C01-C06, C08, C15 are about histories of P (through the layers PD / PC): they say nothing about a
    # history that is not one, so EVERY event PD / PC / P rejects and every differing view breaks their tie ("*")
    "C01": cluster(["C01"], ["*"], ["commit", "log", "dlog", "dcommit", "term", "dterm"], component="RN"),
    "C08": cluster(["C08"], ["*"], [], component="RN"),
    "C10": cluster_only(["C10"], STABILISE_PROFILES, component="RN", rule_extra=STABILISE_RULE),
    "C16": cluster(["C16"], ["bump", "campaign"], [], extra_profiles=LOCKSTEP_PROFILES, component="RN", rule_extra=LOCKSTEP_RULE),
    "C17": cluster(["C17"], [], [], component="RN"),
    # "one vote per term, ever" also rests on RawNode's persistence flags (must_sync, release classification): RawNode tie too
    "C02": cluster(["C02"], ["*"], ["role", "vote"], component=["RN", "C07"]),
    "C03": cluster(["C03"], ["*"], ["vote"], component="RN"),
    "C04": cluster(["C04"], ["*"], ["commit"], component=["RN", "C11"]),
    "C05": cluster(["C05"], ["*"], ["log"], component=["RN", "C14"]),
    "C09": cluster(["C09"], ["bootstrap", "applyconf", "cfginit"], [], component="RN"),
    "C13": cluster(["C13"], ["sendapp", "sendhb"], [], component="RN"),
    "C20": cluster(["C20"], [], [], component="RN"),
    "C15": cluster(["C15"], ["*"], [], component="RN"),
    # C06's node-level theorems are about the node model (self-acknowledgement only after persistence, raft.rs) and about
    # the RawNode model (C06b: release classification): both ties run
    # … and "restart from its stable storage" is MemStorage for every user of the reference storage: C19's tie as well
    "C06": cluster(["C06"], ["*"], ["term", "up", "dterm", "dvote", "dlog", "dcommit"], component=["RN", "C07", "C19"]),
    "RN": {
        "gens": {
            "quick": [
                {"name": "multi-node simulation 90 runs x 1500 steps (contract-abiding traffic)", "args": ["raftnode", "--seed", "{seed}", "--runs", "90", "--steps", "1500", "--coverage", ".build/traces/RN-coverage-sim.json"]},
                {"name": "multi-node simulation + malformed / out-of-contract stream 60 runs x 1500 steps", "args": ["raftnode", "--seed", "{seed}", "--runs", "60", "--steps", "1500", "--malformed", "--coverage", ".build/traces/RN-coverage-malformed.json"]},
            ],
            "thorough": [
                {"name": "multi-node simulation 120 runs x 2500 steps, stream 0", "args": ["raftnode", "--seed", "{seed}", "--offset", "0", "--runs", "120", "--steps", "2500", "--coverage", ".build/traces/RN-coverage-sim0.json"]},
                {"name": "multi-node simulation 120 runs x 2500 steps, stream 1", "args": ["raftnode", "--seed", "{seed}", "--offset", "1", "--runs", "120", "--steps", "2500", "--coverage", ".build/traces/RN-coverage-sim1.json"]},
                {"name": "multi-node simulation 120 runs x 2500 steps, stream 2", "args": ["raftnode", "--seed", "{seed}", "--offset", "2", "--runs", "120", "--steps", "2500", "--coverage", ".build/traces/RN-coverage-sim2.json"]},
                {"name": "multi-node simulation 120 runs x 2500 steps, stream 3", "args": ["raftnode", "--seed", "{seed}", "--offset", "3", "--runs", "120", "--steps", "2500", "--coverage", ".build/traces/RN-coverage-sim3.json"]},
                {"name": "malformed / out-of-contract stream 120 runs x 2000 steps, stream 0", "args": ["raftnode", "--seed", "{seed}", "--offset", "0", "--runs", "120", "--steps", "2000", "--malformed", "--coverage", ".build/traces/RN-coverage-malformed0.json"]},
                {"name": "malformed / out-of-contract stream 120 runs x 2000 steps, stream 1", "args": ["raftnode", "--seed", "{seed}", "--offset", "1", "--runs", "120", "--steps", "2000", "--malformed", "--coverage", ".build/traces/RN-coverage-malformed1.json"]},
            ],
        },
        "rule": "shared engine, not a property: FREE-RUNNING correspondence of ONE raft node. `rvh raftnode` simulates clusters of real RawNode<MemStorage> (1-5 voters, 0-2 learners, 0-2 spare nodes, optional initial joint configuration, optional common log prefix / snapshot point / hard state, per-run knobs pre_vote, check_quorum, batch_append, skip_bcast_commit, priority, max_inflight_msgs 1-4 or 256, max_size_per_msg 0 / 20-100 / unlimited, max_uncommitted_size small or unlimited, read_only_option Safe / LeaseBased, max_committed_size_per_ready, max_apply_unpersisted_log_limit, disable_proposal_forwarding, min/max election tick) under one seeded scheduler: tick, deliver / duplicate / drop / reorder any in-flight message, isolate nodes, propose (payload sizes 0..150), propose_conf_change V1 and V2 (add / remove / learner, 0-3 changes, auto / implicit / explicit, empty = leave joint), read_index, transfer_leader, campaign, ping, request_snapshot, report_unreachable, report_snapshot, storage compaction up to the applied index (followers then need MsgSnapshot), runtime knob changes (set_priority, set_batch_append, skip_bcast_commit, set_check_quorum, adjust_max_inflight_msgs incl. 0, maybe_free_inflight_buffers, group commit enable / assign / clear / check, max_apply_unpersisted_log_limit incl. u64::MAX, max_committed_size_per_ready, MemStorage unavailability triggers), restarts from the node's own storage, healthy bursts, and an emulated application (storage append + stable_entries, on_persist_entries incl. stale notices, snapshot install, apply_conf_change + reduce_uncommitted_size + commit_apply, draining raft.msgs) whose steps are delayed by random numbers of calls. Each node records its own call sequence with the exact messages it received; the Lean driver re-executes the sequence on the model RaftModel.Raft* from the same Config + storage and after EVERY call compares: result (ok / error kind / panic), the whole message queue (16 protobuf fields, entries with payload bytes, stable-sorted by receiver), term, vote, role, leader_id, commit, applied, persisted, first/last index, last term, pending_conf_index, lead_transferee, election_elapsed, heartbeat_elapsed, randomized timeout, promotable, pending_request_snapshot, uncommitted size, apply limit, priority, unstable offset / length / snapshot, storage first / last, group_commit, max_committed_size_per_ready, tracker max_inflight, voter halves, read_states, the read-only queue (ctx, index, origin, acks), per-peer progress (matched, next, state, paused, pending_snapshot, pending_request_snapshot, recent_active, inflights count / full, commit group, committed index), votes, and the ConfState. The model is never re-synchronised: one disagreement ends the node's sequence. The second stream adds messages nobody sent (all 19 types incl. local ones, unknown / zero / own sender ids, terms 0 / lower / higher / u64::MAX, indexes around the log bounds, arbitrary snapshots, damaged or random ConfChange / ConfChangeV2 payloads) offered to RawNode::step (with its filter) or to Raft::step directly. The generator prints its coverage histogram (message types delivered per role, operations, result kinds, emitted message kinds, role / progress-state transitions) on stderr and into .build/traces/RN-coverage-*.json. distinct = distinct (observation before, call) pairs",
        "trusted_base": LEAN_TB,
        "assumptions": [
            "the storage is MemStorage; its model is the one of C19, RaftLog the one of C14, Inflights C18, quorum arithmetic C11, conf-change algebra C12",
            "hash-order dependent emission order (bcast_append, bcast_heartbeat, campaign, post_conf_change) is canonicalised by a stable sort of the message queue by receiver; the MemStorage snapshot-unavailable trigger is only used with a single peer (which peer meets it would depend on hash order)",
            "rand: the value reset_randomized_election_timeout draws is an input of each call (the harness overrides the draw through set_randomized_election_timeout and logs it; with the usual huge max_election_tick a reset is always noticed)",
            "not modelled: logging (including the panics a log statement's arguments could raise), u64 overflow of counters other than the sites an input can reach (term + 1, n + 1 in maybe_update, match_hint + 1, last + 1 in optimistic_update), RawNode's Ready bookkeeping (ready / advance / on_persist_ready / has_ready), on_entries_fetched, Status, the get_entries_context bookkeeping of MemStorage",
        ],
    },
    "C11": {
        "also": ["RN"],
        "stateless": True,
        "gens": {
            "quick": [
                {"name": "repo testdata (src/quorum/testdata/*.txt)", "args": ["quorum", "--testdata"]},
                {"name": "random 25000 cases, 0-9 ids per half", "args": ["quorum", "--seed", "{seed}", "--cases", "25000", "--max-ids", "9"]},
                {"name": "exhaustive halves in {1..3}, idx 0..2, grp 0..2", "args": ["quorum", "--exhaustive", "--ids", "3", "--max-idx", "2", "--max-grp", "2"], "exhaustive": True},
            ],
            "thorough": [
                {"name": "repo testdata (src/quorum/testdata/*.txt)", "args": ["quorum", "--testdata"]},
                {"name": "exhaustive halves in {1..4}, idx 0..3, grp 0..2, votes y/n/missing", "args": ["quorum", "--exhaustive", "--ids", "4", "--max-idx", "3", "--max-grp", "2"], "exhaustive": True},
                {"name": "random 500000 cases, 0-12 ids per half", "args": ["quorum", "--seed", "{seed}", "--cases", "500000", "--max-ids", "12"]},
            ],
        },
        "rule": "self-contained calls of the real raft::majority, MajorityConfig::{committed_index, vote_result}, JointConfig::{committed_index, vote_result} and ProgressTracker::{maximal_committed_index, tally_votes, has_quorum} (through the cfg(tikv_raft_rs_verif) hook module raft::verif::quorum, which only builds the private AckIndexer / joint configuration / tracker and forwards); a case is one call: voter ids of both halves (0..9 per half in the quick tier, 0..12 thorough, overlapping, consecutive or arbitrary u64 ids so that hash iteration order varies; sizes cross the 7/8 stack/heap boundary of committed_index), acknowledged (index, group) per voter with many ties, missing voters, entries of non-voters, groups including 0, indexes up to u64::MAX, group commit on and off; partial vote maps; candidate quorum sets; plus the repo's own quorum/testdata cases as inputs and an exhaustive enumeration of all halves within a small id universe with every ack/group/vote assignment. Returned (index, flag) / VoteResult / counters are compared with the Lean model; distinct = distinct call lines",
        "trusted_base": LEAN_TB,
        "assumptions": [
            "acknowledged indexes are u64 values (only used by joint_committedIndex, because an empty half reports u64::MAX as +infinity)",
            "memory safety of the MaybeUninit stack buffer in majority.rs:77-85 is not a theorem; its behaviour on both the <=7 and the >7 voter path is covered by the correspondence",
            "hash-set iteration order is not modelled; committedIndex_perm / voteResult_perm prove every result is independent of it",
        ],
    },
    "C12": {
        "also": ["RN"],
        "gens": {
            "quick": [
                {"name": "repo testdata (8 scripts)", "args": ["confchange", "--testdata"]},
                {"name": "random 30000x12", "args": ["confchange", "--seed", "{seed}", "--cases", "30000", "--len", "12"]},
                {"name": "exhaustive ids<=4 lists<=2 depth 3", "args": ["confchange", "--exhaustive", "--ids", "4", "--len", "2", "--depth", "3"], "exhaustive": True},
            ],
            "thorough": [
                {"name": "repo testdata (8 scripts)", "args": ["confchange", "--testdata"]},
                {"name": "random 150000x14", "args": ["confchange", "--seed", "{seed}", "--cases", "150000", "--len", "14"]},
                {"name": "exhaustive ids<=4 lists<=3 depth 3", "args": ["confchange", "--exhaustive", "--ids", "4", "--len", "3", "--depth", "3"], "exhaustive": True},
            ],
        },
        "rule": "sequences on the real raft::Changer (simple / enter_joint auto_leave on+off / leave_joint), ProgressTracker::apply_conf, Configuration::to_conf_state, confchange::restore (through the cfg-gated hook), the dispatch of Raft::apply_conf_change on a follower whose tracker is swapped in, and the proto-level ConfChangeV2::{enter_joint,leave_joint}, ConfChange::into_v2, conf_state_eq: (1) the commands of the repo's 8 confchange/testdata scripts, (2) random sequences from one PRNG starting from the empty tracker, a consistent or an arbitrary ConfState (overlapping sets, id 0, duplicates, permutations) or a hook-built inconsistent tracker (drives check_invariants), with change lists over ids 0..6 (0 and unknown ids, duplicates, empty lists), dry runs, restore round trips and permuted re-restores, (3) exhaustive: every configuration reachable from the empty tracker in <= depth successful changes over the id universe, and from each of them every change list up to the length bound under every change kind + the restore round trip; after every operation the result kind and the full configuration (incoming, outgoing, learners, learners_next sorted, auto_leave, ids with a Progress and their learner flag, the ConfState) are compared with the Lean model; a case is one (observation before, operation) pair, distinct = distinct pairs, non-trivial = every pair after the initial `new`",
        "trusted_base": LEAN_TB,
        "assumptions": [
            "only the key set of the ProgressMap is modelled (Progress contents are outside the property); raft-rs's Progress has no learner flag, the flag shown is membership in conf.learners",
            "all check_invariants failures are one error kind (which of several simultaneous violations is reported first depends on hash iteration order)",
            "a deciding quorum of the empty configuration is undefined (n/2+1 of 0 members cannot be met); the code's convention that an empty majority config wins every vote only concerns bootstrap and is excluded from the overlap theorems",
        ],
    },
    "C14": {
        "also": ["RN"],
        "gens": {
            "quick": [
                {"name": "random 20000x40", "args": ["raftlog", "--seed", "{seed}", "--cases", "20000", "--len", "40"]},
                {"name": "exhaustive tiny logs len 3", "args": ["raftlog", "--exhaustive", "--len", "3"], "exhaustive": True},
            ],
            "thorough": [
                {"name": "random 300000x40", "args": ["raftlog", "--seed", "{seed}", "--cases", "300000", "--len", "40"]},
                {"name": "exhaustive tiny logs len 4", "args": ["raftlog", "--exhaustive", "--len", "4"], "exhaustive": True},
            ],
        },
        "rule": "operation histories on raft::RaftLog<MemStorage> (append incl. truncating / gapped / below-commit, maybe_append with the conflict placed at every position relative to first/offset/persisted/committed/last incl. the ones that must panic and non-contiguous batches, commit_to, maybe_commit, ready-style stabilise = storage append of the unstable entries + stable_entries, maybe_persist incl. stale notices, restore(snapshot), storage apply_snapshot + stable_snap + maybe_persist_snap, storage compact, applied_to, runtime change of max_apply_unpersisted_log_limit incl. u64::MAX, the restart window applied > committed, storage unavailability triggers) generated from one PRNG from random initial storages (snapshot point + entries with varied payload sizes around the varint boundary), plus an exhaustive enumeration of all sequences over a 16-symbol alphabet from 4 tiny initial logs; after every mutating operation a dump made of public queries (first_index, last_index, term(i) for every i from first-1 to last+1, all entries, has_next_entries, next_entries) and the public cursors (committed, persisted, applied, unstable offset/len/snapshot/entries_size, storage first/last) is compared with the Lean model, and between mutations pure queries with explicit arguments around every boundary (term, match_term, find_conflict, find_conflict_by_term, is_up_to_date, slice/entries/next_entries_since with size limits at exact prefix sums +-1, 0, NO_LIMIT and None, commit_info, last_term, snapshot); errors are canonicalised to `err compacted|unavailable|log_unavailable|…`, panics to `panic`; a case is one (observation before, command) pair, distinct = distinct pairs",
        "trusted_base": LEAN_TB,
        "assumptions": [
            "the Storage is MemStorage (model of C19); a conforming Storage in the theorems means: contiguous entries above the snapshot point",
            "entry payload bytes are irrelevant to every observable (only lengths are generated and compared)",
            "theorems about invariant preservation assume each operation's documented contract (contiguous batches, stabilise = storage append + stable_entries, compaction <= min(applied, persisted+1)); outside the contract the model is still tied to the code by the correspondence, but no invariant is claimed",
            "RaftLog::scan (crate-private) is modelled but not driven by the correspondence",
        ],
    },
    "C18": {
        "also": ["RN"],
        "gens": {
            "quick": [
                {"name": "random 5000x40", "args": ["inflights", "--seed", "{seed}", "--cases", "5000", "--len", "40"]},
                {"name": "exhaustive cap<=2 len 4", "args": ["inflights", "--exhaustive", "--max-cap", "2", "--len", "4"], "exhaustive": True},
            ],
            "thorough": [
                {"name": "random 200000x40", "args": ["inflights", "--seed", "{seed}", "--cases", "200000", "--len", "40"]},
                {"name": "exhaustive cap<=3 len 5", "args": ["inflights", "--exhaustive", "--max-cap", "3", "--len", "5"], "exhaustive": True},
            ],
        },
        "rule": "operation sequences on raft::Inflights (add of increasing indexes, free_to, free_first_one, reset, set_cap incl. 0, maybe_free_buffer; initial capacity 0..12) generated from one PRNG plus an exhaustive enumeration of all sequences over a 13-symbol alphabet on small capacities; after every operation count(), full() and the window contents (recovered through the public API by probing clones with free_to) are compared with the Lean model; a case is one (observation before, operation) pair, distinct = distinct pairs, non-trivial = every pair after the initial `new`",
        "trusted_base": LEAN_TB,
        "assumptions": [
            "add is called with strictly increasing indexes (as the leader does)",
            "buffer_is_allocated() (a memory optimisation) is modelled but not compared",
        ],
    },
    "C19": {
        "also": ["RN"],
        "gens": {
            "quick": [
                {"name": "random 5000x30", "args": ["memstorage", "--seed", "{seed}", "--cases", "5000", "--len", "30"]},
                {"name": "exhaustive 3 starts x alphabet(24)^3, logs<=4", "args": ["memstorage", "--exhaustive", "--max-log", "4", "--len", "3", "--prefixes", "3"], "exhaustive": True},
            ],
            "thorough": [
                {"name": "random 40000x30 stream 0", "args": ["memstorage", "--seed", "{seed}", "--stream", "0", "--cases", "40000", "--len", "30"]},
                {"name": "random 40000x30 stream 1", "args": ["memstorage", "--seed", "{seed}", "--stream", "1", "--cases", "40000", "--len", "30"]},
                {"name": "random 40000x30 stream 2", "args": ["memstorage", "--seed", "{seed}", "--stream", "2", "--cases", "40000", "--len", "30"]},
                {"name": "random 40000x30 stream 3", "args": ["memstorage", "--seed", "{seed}", "--stream", "3", "--cases", "40000", "--len", "30"]},
                {"name": "random 40000x30 stream 4", "args": ["memstorage", "--seed", "{seed}", "--stream", "4", "--cases", "40000", "--len", "30"]},
                {"name": "exhaustive 3 starts x alphabet(24)^4, logs<=4", "args": ["memstorage", "--exhaustive", "--max-log", "4", "--len", "4", "--prefixes", "3"], "exhaustive": True},
            ],
        },
        "rule": "histories of calls on the real raft::storage::MemStorage (append incl. overwriting / empty / non-contiguous / gapped / compacted batches, compact, commit_to, set_hardstate, set_conf_state, apply_snapshot incl. out-of-date, trigger_snap_unavailable, trigger_log_unavailable) generated from one PRNG (half of the histories abide by every documented precondition, the other half violates a boundary in 40 % of the calls, every call under catch_unwind) plus an exhaustive enumeration of all histories over a 24-symbol symbolic alphabet from three start states on logs of at most 4 entries; entries vary in type, term, data/context length (0..200 bytes, crossing the 127/128 varint boundary) and sync_log so that compute_size varies; after every mutation first_index, last_index, initial_state (hard state, conf state) and term(idx) for every idx in [first-2, last+2] are compared with the Lean model, followed by query lines: term at the snapshot point, entries(low, high, max_size, can_async) over the whole log and sub-ranges with max_size None / NO_LIMIT / 0 / 1 / exact prefix sizes +-1 plus boundary requests (compacted, empty range, beyond last+1, low>high), and snapshot(request_index) incl. the unavailability trigger; a case is one (observation before, call) pair, distinct = distinct pairs, non-trivial = every pair after the initial `new`",
        "trusted_base": LEAN_TB,
        "assumptions": [
            "single-threaded use of MemStorage (RwLock poisoning / concurrency not modelled; a history ends at the first panic)",
            "documented preconditions for the theorems: append batches are contiguous and start within [first_index, last_index+1]; compact_index <= last_index (compact_index <= applied); commit_to an existing entry; for snapshot(): the stored commit index is the snapshot point or a stored entry (kept by set_hardstate within range, compact <= commit, appends not cutting the log below commit)",
            "recorded quirks outside the preconditions (model mirrors the code, Lean examples in RaftProps/C19.lean): compact(last_index+1) drains the log and first/last fall back to the old snapshot point (F5); entries(first,first) panics on an empty log; after compact, term(first_index-1) is Compacted although the trait documents it as available",
            "get_entries_context bookkeeping of MemStorageCore is not modelled (not observable through the Storage trait)",
        ],
    },
    "C07": {
        "gens": {
            "quick": [
                {"name": "random 6000x120 (every 10th sequence also violates the contract)", "args": ["rawnode", "--seed", "{seed}", "--cases", "6000", "--len", "120"]},
            ],
            "thorough": [
                {"name": "random 40000x120 stream 0", "args": ["rawnode", "--seed", "{seed}", "--cases", "40000", "--len", "120"]},
                {"name": "random 10000x300 stream 1", "args": ["rawnode", "--seed", "{seed}7", "--cases", "10000", "--len", "300"]},
            ],
        },
        "rule": "free-running call histories on a real raft::RawNode<MemStorage> (node 1 of a 1-, 2- or 3-voter group whose other members are simulated by hand-crafted incoming messages, pre_vote on/off, restarted from arbitrary initial storages: snapshot point + entries + hard state + Config.applied): MsgAppend incl. truncating appends from a new leader, heartbeats carrying a commit index, MsgSnapshot, vote requests/responses, campaign, tick, propose, read_index, acknowledgements that advance the leader's commit index, runtime set_max_apply_unpersisted_log_limit in {0,1,2,3,1000,u64::MAX} on leaders and followers, max_committed_size_per_ready in {0,1,20,60,150,u64::MAX}; ready() followed by the storage write and advance / advance_append / advance_append_async (50 %), on_persist_ready(n) for a random issued n (any batching), delayed advance_apply_to(k) / advance_apply, storage compaction, crash + RawNode::new with Config.applied; every tenth sequence additionally breaks the contract (missing storage write, on_persist_ready beyond max_number, advance_apply_to beyond the handed-out index, responses before their requests are persisted). After every call the full Ready/LightReady (number, ss, hs, read states, entries, snapshot, committed entries, messages, persisted messages, must_sync), has_ready(), the RaftLog cursors, unstable part, storage range and stored hard state, and the private bookkeeping (max_number, commit_since_index, unpersisted_hs_number, prev_hs, prev_ss, records; through the cfg-gated read-only hook raft::verif::rawnode::view) are compared with the Lean model, which runs freely on the RawNode layer: what Raft::step & co. did to term/vote/role/message queue/log between RawNode calls, and what the three Raft callbacks did beyond the RaftLog cursor update (commit advance, new messages, auto-leave append), is read off the real node and fed to the model as the explicit raft-effect input of that line; a case is one (observation before, call) pair, distinct = distinct pairs",
        "trusted_base": LEAN_TB,
        "assumptions": [
            "of Raft only what RawNode reads/writes is modelled (RaftLog = model of C14 over the MemStorage model of C19, term, vote, role, leader id, message queue as opaque payloads, read states as opaque values); Raft::step/tick/propose are environment steps whose effect on that state is an input constrained by the C14 RaftLog contract; the callbacks on_persist_entries / on_persist_snap / commit_apply update the RaftLog cursors exactly as raft.rs does and take the commit advance, new messages and auto-leave append as an explicit effect input",
            "the application follows the documented contract: no step/tick/propose between ready() and advance*; the storage write of a Ready (snapshot, entries, hard state) happens before advance*; on_persist_ready(n) only for issued numbers; advance_apply_to(k) only for k <= last handed-out index; vote responses only arrive after the persisted messages carrying the request were released",
            "apply-before-persist on a non-leader: set_max_apply_unpersisted_log_limit(>0) may be called on a follower (the API allows it; become_follower resets it); then a snapshot followed by committed appends before the next ready() makes ready() panic at raw_node.rs:537 (model and code agree; the no-panic theorem assumes limit = 0 on non-leaders; Lean example C07_follower_limit_panics)",
            "reduce_uncommitted_size (flow control, C13) is not modelled; conf-change entries / auto-leave are modelled (Effect.appended) but not driven by the generator",
        ],
    },
}
