"""Per-property configuration of /verif/check: generators per tier, evidence texts."""

LEAN_TB = [
    "Lean 4.33.0 kernel (type-checks every proof term); axioms per theorem listed under coverage.theorems, required to be within {propext, Classical.choice, Quot.sound}",
    "no sorry/admit/axiom/native_decide/bv_decide/implemented_by/unsafe in any Lean source (grep over comment-stripped sources on every run)",
    "the hand-written Lean model RaftModel.* is tied to /repo's current source by the differential correspondence check (Rust harness rvh drives the real code in-process; native Lean driver rvm re-executes every operation on the model; observations compared line by line); its strength is bounded by the generators, whose distribution is reported in this file",
    "Nat models u64/usize (no wrap-around of counters)",
]

PROPS = {
    "C18": {
        "gens": {
            "quick": [
                {"name": "random 5000x40", "args": ["inflights", "--seed", "{seed}", "--cases", "5000", "--len", "40"]},
                {"name": "exhaustive cap<=2 len 4", "args": ["inflights", "--exhaustive", "--max-cap", "2", "--len", "4"], "exhaustive": True},
            ],
            "thorough": [
                {"name": "random 200000x40", "args": ["inflights", "--seed", "{seed}", "--cases", "200000", "--len", "40"]},
                {"name": "exhaustive cap<=3 len 5", "args": ["inflights", "--exhaustive", "--max-cap", "3", "--len", "5"], "exhaustive": True},
            ],
        },
        "rule": "operation sequences on raft::Inflights (add of increasing indexes, free_to, free_first_one, reset, set_cap incl. 0, maybe_free_buffer; initial capacity 0..12) generated from one PRNG plus an exhaustive enumeration of all sequences over a 13-symbol alphabet on small capacities; after every operation count(), full() and the window contents (recovered through the public API by probing clones with free_to) are compared with the Lean model; a case is one (observation before, operation) pair, distinct = distinct pairs, non-trivial = every pair after the initial `new`",
        "trusted_base": LEAN_TB,
        "assumptions": [
            "add is called with strictly increasing indexes (as the leader does)",
            "buffer_is_allocated() (a memory optimisation) is modelled but not compared",
        ],
    },
}
