#!/bin/sh
# development-time: run every registered quick (or $2) check with VERIF_SEED=$1, print one line per property
# usage: checklib/sweep.sh <seed> [tier] [ids...]
seed=${1:-1}; tier=${2:-quick}; shift; shift
cd "$(dirname "$0")/.."
[ -x lean/.lake/build/bin/rvm ] || ./setup.sh >/dev/null 2>&1
ids=${*:-C01 C02 C03 C04 C05 C06 C07 C08 C09 C10 C11 C12 C13 C14 C15 C16 C17 C18 C19 C20}
for p in $ids; do
  s=$(date +%s)
  out=$(VERIF_SEED=$seed ./check $p --tier $tier 2>&1); rc=$?
  e=$(date +%s)
  echo "SWEEP seed=$seed tier=$tier $p rc=$rc $((e-s))s $(echo "$out" | grep -E 'VIOLATION|KNOWN-FINDING|ERROR' | head -3 | tr '\n' ' ')"
  [ $rc -ne 0 ] && echo "$out" | tail -5
done
