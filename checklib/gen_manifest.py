#!/usr/bin/env python3
"""Regenerates /verif/MANIFEST.json from checklib/claims.py (keeps the manifest valid at all times)."""
import json, os, subprocess, sys
sys.path.insert(0, os.path.dirname(__file__))
from claims import CLAIMS, NOT_APPLICABLE

props = [json.loads(l) for l in open('/verif/properties.jsonl')]
hook_commits = subprocess.run(['git', '-C', '/repo', 'log', '--format=%H %s'], capture_output=True, text=True).stdout.split('\n')
hook_commits = [l.split(' ')[0] for l in hook_commits if l.split(' ', 1)[-1].startswith('verif hooks')]
claimed = sorted(CLAIMS)
m = {
    "version": 1,
    "setup_cmd": "./setup.sh",
    "hooks": {
        "guard": "tikv_raft_rs_verif",
        "enable": "RUSTFLAGS --cfg tikv_raft_rs_verif, set in /verif/harness/.cargo/config.toml (build.rustflags); the harness crate has a path dependency on /repo and is rebuilt by cargo on every check",
        "baseline_off_cmd": "cd /repo && cargo test --workspace --no-fail-fast --offline",
        "source_commits": hook_commits,
        "add_only": True,
    },
    "engines": [
        {"name": "lean-proofs", "path": "lean/RaftProps", "serves_properties": claimed, "kind_free_text": "Lean 4 theorems about the executable component models and the executable node model (RaftModel.*) and about the abstract protocol P (RaftModel/Proto.lean, all histories incl. membership changes); helper lemmas in RaftProofs"},
        {"name": "lean-model-driver", "path": "lean/Main.lean", "serves_properties": claimed, "kind_free_text": "native lean_exe rvm: re-executes trace lines on the models / validates P events and views, compares with the implementation's observations"},
        {"name": "rust-harness", "path": "harness", "serves_properties": claimed, "kind_free_text": "rvh: drives the real raft-rs code in-process (component executors, free-running node correspondence, cluster simulator with monitors, lock-step and fair-suffix scenarios), prints the line protocol"},
    ],
    "checks": [],
    "notes": "see DESIGN.md section 12 (as built); known_findings.json lists the genuine defects of raft-rs found: F1-F14, F16 repaired by fix: commits in /repo (status fixed, suppress nothing), F15 (C10) and F17 (C08) recorded and not repaired (status known: the check re-runs findings/<id> and prints KNOWN-FINDING while it reproduces)",
    "not_applicable": [],
}
for p in props:
    pid = p['id']
    if pid in CLAIMS:
        c = CLAIMS[pid]
        m['checks'].append({
            "property_id": pid,
            "quick_cmd": "./check %s --tier quick" % pid,
            "thorough_cmd": "./check %s --tier thorough" % pid,
            "evidence_file": "/verif/evidence/%s.json" % pid,
            "replay_cmd_template": "./check replay {path}",
            "engine": "lean-proofs",
            "level_claimed": {"category": "proof", "text": c["text"], "design_ref": c.get("design_ref", "DESIGN.md §7 " + pid)},
            "level_note": c.get("note", "Trusted: Lean kernel; axioms propext/Classical.choice/Quot.sound only; the hand-written model is tied to the code by the correspondence check (sampled + exhaustive small scope); Nat for u64/usize."),
            "technique": c.get("technique", "Lean 4 proof (induction / invariants / refinement) + differential correspondence model vs code"),
        })
    else:
        m['not_applicable'].append({"property_id": pid, "reason": NOT_APPLICABLE.get(pid, "not yet built in this round (planned, see DESIGN.md §11); no check is registered, so nothing is claimed")})
json.dump(m, open('/verif/MANIFEST.json', 'w'), indent=1)
print("claimed:", claimed)
