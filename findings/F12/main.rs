// F12 (reduced reproduction on real code): commit-by-vote lets a node learn, WITHOUT changing its
// term, a commit index that was decided in a later term (a rejected pre-vote request carries the
// pre-candidate's commit info and is handled without a term change).  When the stale leader of the
// node's own, older term then sends it an append anchored below that commit index, the node answers
// "index = committed" (handle_append_entries, `m.index < committed`), which the stale leader takes
// as an acknowledgement of ITS OWN entries up to that index -- entries the node does not hold.
//
// Node states are staged through storage (as after a restart); how a cluster gets there is in
// DESIGN.md (7 voters: stale leader of term 3, one true and two such false acknowledgements).
use raft::{prelude::*, storage::MemStorage, StateRole};
use slog::{o, Discard, Logger};

fn ent(index: u64, term: u64, d: &str) -> Entry { let mut e = Entry::default(); e.index = index; e.term = term; e.data = d.as_bytes().to_vec().into(); e }

fn mk(id: u64, hs: (u64, u64, u64), log: Vec<Entry>, l: &Logger) -> (RawNode<MemStorage>, MemStorage) {
    let st = MemStorage::new_with_conf_state(ConfState::from((vec![1, 2, 3, 4, 5, 6, 7], vec![])));
    st.wl().append(&log).unwrap();
    let mut h = HardState::default(); h.term = hs.0; h.vote = hs.1; h.commit = hs.2;
    st.wl().set_hardstate(h);
    let cfg = Config { id, election_tick: 10, heartbeat_tick: 1, pre_vote: true, ..Default::default() };
    (RawNode::new(&cfg, st.clone(), l).unwrap(), st)
}

fn drain(rn: &mut RawNode<MemStorage>, st: &MemStorage) -> Vec<Message> {
    let mut out = vec![];
    while rn.has_ready() {
        let mut rd = rn.ready();
        out.extend(rd.take_messages());
        st.wl().append(rd.entries()).unwrap();
        if let Some(hs) = rd.hs() { st.wl().set_hardstate(hs.clone()); }
        out.extend(rd.take_persisted_messages());
        let mut light = rn.advance(rd);
        if let Some(c) = light.commit_index() { st.wl().mut_hard_state().commit = c; }
        out.extend(light.take_messages());
        rn.advance_apply();
    }
    out
}

fn main() {
    let l = Logger::root(Discard, o!());
    // v = node 3: term 3 (it rejected node 1's vote request for term 3), log: noop(1), b(2), b'(2) from the leader of term 2, commit 1
    let (mut v, vst) = mk(3, (3, 0, 1), vec![ent(1, 1, ""), ent(2, 2, "b"), ent(3, 2, "b'")], &l);
    // p = node 5: term 4; the leader of term 4 overwrote its index 2 with b and told it commit = 2 (b was committed in term 4)
    let (mut p, pst) = mk(5, (4, 2, 2), vec![ent(1, 1, ""), ent(2, 2, "b")], &l);
    // L = node 1: about to lead term 3: term 2, log: noop(1) only
    let (mut ld, lst) = mk(1, (2, 0, 1), vec![ent(1, 1, "")], &l);

    // L wins term 3 with the (pre-)votes of 4, 5(before it moved on), 6 -- their responses are fed by hand
    ld.campaign().unwrap();
    let _ = drain(&mut ld, &lst);
    for from in [4u64, 6, 7] { let mut m = Message::default(); m.set_msg_type(MessageType::MsgRequestPreVoteResponse); m.from = from; m.to = 1; m.term = 3; let _ = ld.step(m); }
    let _ = drain(&mut ld, &lst);
    for from in [4u64, 6, 7] { let mut m = Message::default(); m.set_msg_type(MessageType::MsgRequestVoteResponse); m.from = from; m.to = 1; m.term = 3; let _ = ld.step(m); }
    let to_send = drain(&mut ld, &lst);
    assert_eq!(ld.raft.state, StateRole::Leader);
    assert_eq!(ld.raft.term, 3);
    println!("node 1 leads term 3; its log: {:?}", ld.raft.raft_log.all_entries().iter().map(|e| (e.index, e.term)).collect::<Vec<_>>());
    let app_to_3: Vec<Message> = to_send.into_iter().filter(|m| m.to == 3 && m.get_msg_type() == MessageType::MsgAppend).collect();
    assert!(!app_to_3.is_empty());

    // node 5 (term 4) pre-campaigns; its request reaches node 3
    p.campaign().unwrap();
    let reqs = drain(&mut p, &pst);
    let req = reqs.into_iter().find(|m| m.to == 3 && m.get_msg_type() == MessageType::MsgRequestPreVote).expect("pre-vote request to node 3");
    println!("pre-vote request of node 5: term {} last ({}, {}) commit ({}, term {})", req.term, req.index, req.log_term, req.commit, req.commit_term);
    let before = (v.raft.term, v.raft.raft_log.committed);
    v.step(req).unwrap();
    let resp = drain(&mut v, &vst);
    let after = (v.raft.term, v.raft.raft_log.committed);
    println!("node 3 (term, commit): {:?} -> {:?}; its answer: {:?}", before, after, resp.iter().map(|m| (m.get_msg_type(), m.reject)).collect::<Vec<_>>());
    if after != (3, 2) { println!("no defect: node 3 did not take over the commit index of a later term"); return; }

    // the stale leader's append (prev = (1, term 1), entries = [its noop (2, term 3)]) now reaches node 3
    for m in app_to_3 {
        println!("append of node 1: term {} prev ({}, {}) entries {:?}", m.term, m.index, m.log_term, m.entries.iter().map(|e| (e.index, e.term)).collect::<Vec<_>>());
        v.step(m).unwrap();
    }
    let acks = drain(&mut v, &vst);
    for a in acks.into_iter().filter(|m| m.to == 1) {
        println!("node 3 answers: {:?} index {} reject {}", a.get_msg_type(), a.index, a.reject);
        ld.step(a).unwrap();
    }
    let _ = drain(&mut ld, &lst);
    let matched = ld.raft.prs().get(3).unwrap().matched;
    let e1: Vec<(u64, u64)> = ld.raft.raft_log.all_entries().iter().map(|e| (e.index, e.term)).collect();
    let e3: Vec<(u64, u64)> = v.raft.raft_log.all_entries().iter().map(|e| (e.index, e.term)).collect();
    println!("node 1 log {:?}, node 3 log {:?}, node 1's matched[3] = {}", e1, e3, matched);
    if matched >= 2 && e1[1] != e3[1] {
        println!("DEFECT: the leader of term 3 counts node 3 as holding its entry {:?}, but node 3 holds {:?} there (committed in term 4)", e1[1], e3[1]);
        std::process::exit(1);
    }
    println!("no defect");
}
