//! F14 (C10): a leader that removes itself from the configuration stays leader for ever, refuses every
//! proposal, and — because its heartbeats keep arriving — keeps the remaining voters from electing
//! anybody.  Two voters {1, 2}, node 1 leads and proposes "remove 1"; both apply it.  Then the
//! network stays healthy and everybody is ticked regularly for 60 election timeouts.
use raft::eraftpb::{ConfChange, ConfChangeType, EntryType, Message};
use raft::prelude::*;
use raft::storage::MemStorage;
use raft::{Config, RawNode, StateRole};
use protobuf::Message as PbMessage;

fn drive(nodes: &mut Vec<RawNode<MemStorage>>) {
    // handle Readies and deliver messages until nothing moves
    loop {
        let mut moved = false;
        let mut out: Vec<Message> = vec![];
        for n in nodes.iter_mut() {
            while n.has_ready() {
                moved = true;
                let mut rd = n.ready();
                out.extend(rd.take_messages());
                if !rd.snapshot().is_empty() {
                    n.mut_store().wl().apply_snapshot(rd.snapshot().clone()).unwrap();
                }
                n.mut_store().wl().append(rd.entries()).unwrap();
                if let Some(hs) = rd.hs() {
                    n.mut_store().wl().set_hardstate(hs.clone());
                }
                out.extend(rd.take_persisted_messages());
                let mut ces = rd.take_committed_entries();
                let mut light = n.advance(rd);
                out.extend(light.take_messages());
                ces.extend(light.take_committed_entries());
                for e in ces {
                    if e.get_entry_type() == EntryType::EntryConfChange {
                        let mut cc = ConfChange::default();
                        cc.merge_from_bytes(&e.data).unwrap();
                        let cs = n.apply_conf_change(&cc).unwrap();
                        n.mut_store().wl().set_conf_state(cs);
                    }
                }
                n.advance_apply();
            }
        }
        for m in out {
            let to = m.to as usize;
            if to >= 1 && to <= nodes.len() {
                let _ = nodes[to - 1].step(m);
                moved = true;
            }
        }
        if !moved {
            break;
        }
    }
}

fn main() {
    let logger = slog::Logger::root(slog::Discard, slog::o!());
    let mut nodes = vec![];
    for id in 1..=2u64 {
        let cfg = Config { id, election_tick: 10, heartbeat_tick: 1, check_quorum: true, pre_vote: true, ..Default::default() };
        let store = MemStorage::new_with_conf_state((vec![1, 2], vec![]));
        nodes.push(RawNode::new(&cfg, store, &logger).unwrap());
    }
    nodes[0].campaign().unwrap();
    drive(&mut nodes);
    assert_eq!(nodes[0].raft.state, StateRole::Leader);
    let mut cc = ConfChange::default();
    cc.set_change_type(ConfChangeType::RemoveNode);
    cc.node_id = 1;
    nodes[0].propose_conf_change(vec![], cc).unwrap();
    drive(&mut nodes);
    for n in nodes.iter() {
        assert_eq!(n.raft.prs().conf().voters().ids().iter().collect::<Vec<_>>(), vec![2], "both nodes applied the removal of node 1");
    }
    // fault-free suffix: 60 election timeouts (randomized timeouts are below 2 * election_tick)
    let mut accepted = false;
    for _ in 0..(60 * 20) {
        for n in nodes.iter_mut() {
            n.tick();
        }
        drive(&mut nodes);
        if let Some(l) = nodes.iter_mut().find(|n| n.raft.state == StateRole::Leader) {
            if l.propose(vec![], b"x".to_vec()).is_ok() {
                accepted = true;
                break;
            }
        }
    }
    let roles: Vec<_> = nodes.iter().map(|n| (n.raft.id, n.raft.state, n.raft.term)).collect();
    if !accepted {
        println!("DEFECT: after 60 fault-free election timeouts no leader accepts a proposal: {:?} (node 1 was removed from the voters but still leads and its heartbeats keep node 2 from campaigning)", roles);
        std::process::exit(1);
    }
    drive(&mut nodes);
    println!("ok: a proposal was accepted after the removal: {:?}", roles);
}
