// Reproduction attempt: a duplicated, older MsgSnapshot delivered while a follower has a newer
// snapshot request pending truncates entries the follower already acknowledged.
use raft::{prelude::*, storage::MemStorage, StateRole};
use slog::{o, Discard, Logger};

struct N { rn: RawNode<MemStorage>, st: MemStorage }

fn node(id: u64, l: &Logger) -> N {
    let st = MemStorage::new_with_conf_state(ConfState::from((vec![1, 2, 3], vec![])));
    let cfg = Config { id, election_tick: 10, heartbeat_tick: 1, ..Default::default() };
    N { rn: RawNode::new(&cfg, st.clone(), l).unwrap(), st }
}

/// synchronous Ready handling; returns the messages to send
fn drain(n: &mut N) -> Vec<Message> {
    let mut out = vec![];
    while n.rn.has_ready() {
        let mut rd = n.rn.ready();
        out.extend(rd.take_messages());
        if !rd.snapshot().is_empty() { n.st.wl().apply_snapshot(rd.snapshot().clone()).unwrap(); }
        n.st.wl().append(rd.entries()).unwrap();
        if let Some(hs) = rd.hs() { n.st.wl().set_hardstate(hs.clone()); }
        out.extend(rd.take_persisted_messages());
        let mut light = n.rn.advance(rd);
        if let Some(c) = light.commit_index() { n.st.wl().mut_hard_state().commit = c; }
        out.extend(light.take_messages());
        n.rn.advance_apply();
    }
    out
}

fn main() {
    let l = Logger::root(Discard, o!());
    let mut ns: Vec<N> = (1..=3).map(|i| node(i, &l)).collect();
    let deliver = |ns: &mut Vec<N>, m: Message| { let to = m.to as usize - 1; let _ = ns[to].rn.step(m); };
    // 1. node 1 becomes leader of term 1 with the votes of 2 and 3
    ns[0].rn.campaign().unwrap();
    let mut q = drain(&mut ns[0]);
    for _ in 0..6 { let mut next = vec![]; for m in q.drain(..) { let to = m.to as usize - 1; deliver(&mut ns, m); next.extend(drain(&mut ns[to])); } q = next; }
    assert_eq!(ns[0].rn.raft.state, StateRole::Leader);
    // helper: run traffic between 1 and 2 only (node 3 cut off), optionally holding back messages to 2 that carry a new commit
    let pump12 = |ns: &mut Vec<N>, q: &mut Vec<Message>, rounds: usize| { for _ in 0..rounds { let mut next = vec![]; for m in q.drain(..) { if m.to == 3 { continue; } let to = m.to as usize - 1; deliver(ns, m); next.extend(drain(&mut ns[to])); } *q = next; } };
    // 2. three entries replicated to 2 and committed; node 3 gets nothing
    for k in 0..3 { ns[0].rn.propose(vec![], format!("a{}", k).into_bytes()).unwrap(); }
    let mut q = drain(&mut ns[0]);
    { for _ in 0..8 { let mut next = vec![]; for m in q.drain(..) { let to = m.to as usize - 1; deliver(&mut ns, m); next.extend(drain(&mut ns[to])); } q = next; } }
    println!("after phase 2: n1 last {} commit {} | n2 last {} commit {}", ns[0].rn.raft.raft_log.last_index(), ns[0].rn.raft.raft_log.committed, ns[1].rn.raft.raft_log.last_index(), ns[1].rn.raft.raft_log.committed);
    // node 3 receives the log up to index 4 only (so that it is a plausible later candidate): replay an append by hand
    // 3. node 2 requests a snapshot; keep a duplicate of the MsgSnapshot the leader answers with
    ns[1].rn.request_snapshot().unwrap();
    let mut q = drain(&mut ns[1]);
    let mut dup: Option<Message> = None;
    for _ in 0..6 { let mut next = vec![]; for m in q.drain(..) { if m.to == 3 { continue; } if m.get_msg_type() == MessageType::MsgSnapshot && dup.is_none() { dup = Some(m.clone()); } let to = m.to as usize - 1; deliver(&mut ns, m); next.extend(drain(&mut ns[to])); } q = next; }
    let dup = dup.expect("leader sent a snapshot");
    let s1 = dup.get_snapshot().get_metadata().index;
    println!("snapshot #1 at index {} installed: n2 last {} commit {}", s1, ns[1].rn.raft.raft_log.last_index(), ns[1].rn.raft.raft_log.committed);
    ns[0].rn.report_snapshot(2, SnapshotStatus::Finish);
    { let pr = ns[0].rn.raft.prs().get(2).unwrap(); println!("leader progress for 2: {:?} matched {} next {} paused {}", pr.state, pr.matched, pr.next_idx, pr.paused); }
    // 4. more entries: appended and acknowledged by node 2, committed by the leader with quorum {1,2};
    //    node 2 does not learn the new commit index (messages to 2 that would carry it are held back)
    for k in 0..4 { ns[0].rn.propose(vec![], format!("b{}", k).into_bytes()).unwrap(); }
    // traffic between 1 and 2, but any message to 2 that would reveal a commit index above its current one is lost
    let c2_before = ns[1].rn.raft.raft_log.committed;
    for round in 0..12 {
        if round % 3 == 2 { ns[0].rn.tick(); }
        let out = drain(&mut ns[0]);
        let mut back = vec![];
        for m in out { println!("   r{} 1->{} {:?} idx {} ents {} commit {} rej {}", round, m.to, m.get_msg_type(), m.index, m.entries.len(), m.commit, m.reject); if m.to == 2 && m.commit <= c2_before { deliver(&mut ns, m); back.extend(drain(&mut ns[1])); } }
        for m in back { println!("   r{} 2->{} {:?} idx {} rej {} reqsnap {}", round, m.to, m.get_msg_type(), m.index, m.reject, m.request_snapshot); if m.to == 1 { deliver(&mut ns, m); } }
    }
    let (l1, c1, l2, c2) = (ns[0].rn.raft.raft_log.last_index(), ns[0].rn.raft.raft_log.committed, ns[1].rn.raft.raft_log.last_index(), ns[1].rn.raft.raft_log.committed);
    println!("after phase 4: n1 last {} commit {} | n2 last {} commit {}", l1, c1, l2, c2);
    assert!(c2 < c1 && l2 >= c1, "need: leader committed entries that node 2 acknowledged but does not know to be committed");
    // 5. node 2 asks for a snapshot again, and the *old* MsgSnapshot (a network duplicate) arrives
    ns[1].rn.request_snapshot().unwrap();
    let _ = drain(&mut ns[1]);
    deliver(&mut ns, dup);
    println!("right after step(MsgSnapshot dup): n2 last {} commit {} pending snapshot {:?}", ns[1].rn.raft.raft_log.last_index(), ns[1].rn.raft.raft_log.committed, ns[1].rn.raft.raft_log.unstable_snapshot().as_ref().map(|s| s.get_metadata().index));
    let l2b = ns[1].rn.raft.raft_log.last_index();
    println!("after the duplicated snapshot: n2 last {} commit {} (leader committed {})", l2b, ns[1].rn.raft.raft_log.committed, c1);
    if l2b >= c1 {
        println!("no defect: node 2 kept its acknowledged entries");
        return;
    }
    println!("DEFECT: node 2 acknowledged entries up to {} (counted for the commit of index {}), and has now discarded everything above {}", l2, c1, l2b);
    // 6. consequence: node 3 (log up to 4) wins term 2 with the votes of {2, 3} and commits a different entry at index 5
    let e1 = ns[0].rn.raft.raft_log.entries(5, None, raft::GetEntriesContext::empty(false)).unwrap()[0].clone();
    ns[2].rn.campaign().unwrap();
    let mut q = drain(&mut ns[2]);
    for _ in 0..10 { let mut next = vec![]; for m in q.drain(..) { if m.to == 1 || m.from == 1 { continue; } let to = m.to as usize - 1;
        if to == 1 && m.get_msg_type() == MessageType::MsgSnapshot { continue; }
        let r = std::panic::catch_unwind(std::panic::AssertUnwindSafe(|| { deliver(&mut ns, m); drain(&mut ns[to]) })); if let Ok(v) = r { next.extend(v); } } q = next; }
    println!("node 3: state {:?} term {} last {} commit {}", ns[2].rn.raft.state, ns[2].rn.raft.term, ns[2].rn.raft.raft_log.last_index(), ns[2].rn.raft.raft_log.committed);
    if ns[2].rn.raft.state == StateRole::Leader && ns[2].rn.raft.raft_log.committed >= 5 {
        let e3 = ns[2].rn.raft.raft_log.entries(5, None, raft::GetEntriesContext::empty(false)).unwrap()[0].clone();
        println!("C01 VIOLATED: index 5 committed by node 1 (leader of term 1) = (term {}, {:?}); index 5 committed by node 3 (leader of term 2) = (term {}, {:?})", e1.term, String::from_utf8_lossy(&e1.data), e3.term, String::from_utf8_lossy(&e3.data));
    }
    std::process::exit(1);
}
