//! F17 (C08, recorded, not repaired): a duplicated forwarded read request plus a duplicated (stale)
//! heartbeat response lets a superseded leader answer a FRESH read with a stale index.
//! `ReadOnly` identifies a confirmation round by the request context alone.  When the network
//! re-delivers an old MsgReadIndex (context "a", answered long ago) the leader registers "a" again,
//! behind every request registered since; an old MsgHeartbeatResponse carrying context "a" — generated
//! before those requests even existed — then completes "a"'s quorum and `advance` answers everything
//! queued before it.
use raft::eraftpb::{Message, MessageType};
use raft::prelude::*;
use raft::storage::MemStorage;
use raft::{Config, RawNode, StateRole};

fn handle(n: &mut RawNode<MemStorage>) -> (Vec<Message>, Vec<ReadState>) {
    let (mut out, mut rs) = (vec![], vec![]);
    while n.has_ready() {
        let mut rd = n.ready();
        rs.extend(rd.take_read_states());
        out.extend(rd.take_messages());
        n.mut_store().wl().append(rd.entries()).unwrap();
        if let Some(hs) = rd.hs() { n.mut_store().wl().set_hardstate(hs.clone()); }
        out.extend(rd.take_persisted_messages());
        let mut light = n.advance(rd);
        out.extend(light.take_messages());
        n.advance_apply();
    }
    (out, rs)
}

/// deliver among `who` until quiet; returns (messages for others, all messages seen, read states per node)
fn run(nodes: &mut Vec<RawNode<MemStorage>>, who: &[u64], mut inbox: Vec<Message>, seen: &mut Vec<Message>, rss: &mut Vec<(u64, ReadState)>) -> Vec<Message> {
    let mut held = vec![];
    loop {
        for m in inbox.drain(..) {
            seen.push(m.clone());
            if who.contains(&m.to) { let _ = nodes[m.to as usize - 1].step(m); } else { held.push(m); }
        }
        let mut out = vec![];
        for &id in who {
            let (o, rs) = handle(&mut nodes[id as usize - 1]);
            out.extend(o);
            rss.extend(rs.into_iter().map(|r| (id, r)));
        }
        if out.is_empty() { return held; }
        inbox = out;
    }
}

fn main() {
    let logger = slog::Logger::root(slog::Discard, slog::o!());
    let mut nodes = vec![];
    for id in 1..=3u64 {
        let cfg = Config { id, election_tick: 10, heartbeat_tick: 1, ..Default::default() };
        let store = MemStorage::new_with_conf_state((vec![1, 2, 3], vec![]));
        nodes.push(RawNode::new(&cfg, store, &logger).unwrap());
    }
    let (mut seen, mut rss) = (vec![], vec![]);
    nodes[0].campaign().unwrap();
    let (m, _) = handle(&mut nodes[0]);
    run(&mut nodes, &[1, 2, 3], m, &mut seen, &mut rss);
    assert_eq!(nodes[0].raft.state, StateRole::Leader);
    // 1. node 2 issues read "a"; it is forwarded to leader 1, confirmed by a heartbeat round, answered
    seen.clear();
    nodes[1].read_index(b"a".to_vec());
    let (m, _) = handle(&mut nodes[1]);
    run(&mut nodes, &[1, 2, 3], m, &mut seen, &mut rss);
    assert!(rss.iter().any(|(n, r)| *n == 2 && r.request_ctx == b"a".to_vec()));
    let old_request = seen.iter().find(|m| m.get_msg_type() == MessageType::MsgReadIndex && m.to == 1).cloned().expect("forwarded request");
    let old_ack = seen.iter().find(|m| m.get_msg_type() == MessageType::MsgHeartbeatResponse && m.to == 1 && m.context == b"a".to_vec()).cloned().expect("heartbeat response with context a");
    // 2. node 1 is cut off; nodes 2 and 3 elect node 2 for the next term and commit + apply a write
    for _ in 0..30 {
        for id in [2usize, 3] { nodes[id - 1].tick(); }
        run(&mut nodes, &[2, 3], vec![], &mut seen, &mut rss);
        if nodes[1].raft.state == StateRole::Leader || nodes[2].raft.state == StateRole::Leader { break; }
    }
    let nl = if nodes[1].raft.state == StateRole::Leader { 1 } else { 2 };
    nodes[nl].propose(vec![], b"w".to_vec()).unwrap();
    let (m, _) = handle(&mut nodes[nl]);
    run(&mut nodes, &[2, 3], m, &mut seen, &mut rss);
    let committed_elsewhere = nodes[nl].raft.raft_log.committed;
    assert!(committed_elsewhere > nodes[0].raft.raft_log.committed, "the majority side has committed beyond what node 1 knows");
    assert_eq!(nodes[0].raft.state, StateRole::Leader, "node 1 still believes it leads (no check_quorum, no traffic)");
    // 3. a FRESH read "b" is issued on node 1 (after that commit); node 1 registers it and needs a quorum round
    rss.clear();
    nodes[0].read_index(b"b".to_vec());
    let (_lost, rs) = handle(&mut nodes[0]); // its heartbeats go nowhere
    assert!(rs.is_empty(), "no answer without a heartbeat round");
    // 4. the network re-delivers the old forwarded request "a" and then the old acknowledgement of "a"
    let _ = nodes[0].step(old_request);
    let _ = nodes[0].step(old_ack);
    let (_out, rs) = handle(&mut nodes[0]);
    match rs.iter().find(|r| r.request_ctx == b"b".to_vec()) {
        Some(r) if r.index < committed_elsewhere => {
            println!("DEFECT (F17): the superseded leader 1 answered read \"b\" (issued after node {} committed index {}) with index {}, on a heartbeat acknowledgement generated before \"b\" existed", nl + 1, committed_elsewhere, r.index);
            std::process::exit(1);
        }
        Some(r) => println!("ok: read b answered with index {}", r.index),
        None => println!("ok: read \"b\" was not answered on stale acknowledgements"),
    }
}
