//! F13 (C20): a node that has not seen any term yet (term 0) panics when it rejects a pre-vote request.
//! Fresh 3-voter group, pre_vote on, node 1 has a higher priority than the candidate: node 1 rejects
//! node 2's MsgRequestPreVote (same log, lower priority) with `term = self.term = 0`, and
//! `RaftCore::send` treated a vote response without a term as a programming error (fatal!).
use raft::eraftpb::{Message, MessageType};
use raft::storage::MemStorage;
use raft::{Config, RawNode};

fn main() {
    let logger = slog::Logger::root(slog::Discard, slog::o!());
    let cfg = Config { id: 1, election_tick: 10, heartbeat_tick: 1, pre_vote: true, priority: 2, ..Default::default() };
    let store = MemStorage::new_with_conf_state((vec![1, 2, 3], vec![]));
    let mut n1 = RawNode::new(&cfg, store, &logger).unwrap();
    // what node 2 (priority 0, empty log, term 0) sends when its election timer fires with pre_vote on
    let mut m = Message::default();
    m.set_msg_type(MessageType::MsgRequestPreVote);
    m.from = 2;
    m.to = 1;
    m.term = 1;
    m.index = 0;
    m.log_term = 0;
    let r = std::panic::catch_unwind(std::panic::AssertUnwindSafe(|| n1.step(m)));
    match r {
        Err(_) => {
            println!("DEFECT: node 1 (term 0) panicked while rejecting a pre-vote request of a lower-priority candidate");
            std::process::exit(1);
        }
        Ok(res) => {
            res.unwrap();
            let out: Vec<_> = n1.raft.msgs.iter().map(|m| (m.get_msg_type(), m.to, m.term, m.reject)).collect();
            println!("ok: node 1 answered {:?}", out);
            assert_eq!(out, vec![(MessageType::MsgRequestPreVoteResponse, 2, 0, true)]);
        }
    }
}
