//! F15 (C10, recorded, not repaired): a follower's snapshot request can wedge the group for ever.
//! `request_snapshot()` asks for a snapshot at the follower's LAST index — an index that need not be
//! committed — and from then on the follower answers every append and heartbeat with the request
//! instead of an acknowledgement.  If the leader cannot commit that index without this follower
//! (2 voters; or the acknowledgement was lost / the leader changed), it can never apply it, so a
//! Storage that honours "a snapshot's index must not be less than request_index" answers
//! SnapshotTemporarilyUnavailable for ever, and nothing is ever committed again.
use raft::eraftpb::{Entry, Message, MessageType, Snapshot};
use raft::prelude::*;
use raft::storage::MemStorage;
use raft::{Config, GetEntriesContext, RaftState, RawNode, StateRole, Storage};
use std::sync::{Arc, Mutex};

/// MemStorage, except that `snapshot` honours the contract instead of relabelling an older snapshot
#[derive(Clone)]
struct Store { mem: MemStorage, applied: Arc<Mutex<u64>> }
impl Storage for Store {
    fn initial_state(&self) -> raft::Result<RaftState> { self.mem.initial_state() }
    fn entries(&self, l: u64, h: u64, m: impl Into<Option<u64>>, c: GetEntriesContext) -> raft::Result<Vec<Entry>> { self.mem.entries(l, h, m, c) }
    fn term(&self, i: u64) -> raft::Result<u64> { self.mem.term(i) }
    fn first_index(&self) -> raft::Result<u64> { self.mem.first_index() }
    fn last_index(&self) -> raft::Result<u64> { self.mem.last_index() }
    fn snapshot(&self, request_index: u64, to: u64) -> raft::Result<Snapshot> {
        if *self.applied.lock().unwrap() < request_index {
            return Err(raft::Error::Store(raft::StorageError::SnapshotTemporarilyUnavailable));
        }
        self.mem.snapshot(request_index, to)
    }
}

fn handle(n: &mut RawNode<Store>, out: &mut Vec<Message>) {
    while n.has_ready() {
        let mut rd = n.ready();
        out.extend(rd.take_messages());
        n.store().mem.wl().append(rd.entries()).unwrap();
        if let Some(hs) = rd.hs() { n.store().mem.wl().set_hardstate(hs.clone()); }
        out.extend(rd.take_persisted_messages());
        let mut ces = rd.take_committed_entries();
        let mut light = n.advance(rd);
        out.extend(light.take_messages());
        ces.extend(light.take_committed_entries());
        if let Some(e) = ces.last() { *n.store().applied.lock().unwrap() = e.index; }
        n.advance_apply();
    }
}

fn main() {
    let logger = slog::Logger::root(slog::Discard, slog::o!());
    let mut nodes = vec![];
    for id in 1..=2u64 {
        let cfg = Config { id, election_tick: 10, heartbeat_tick: 1, ..Default::default() };
        let store = Store { mem: MemStorage::new_with_conf_state((vec![1, 2], vec![])), applied: Arc::new(Mutex::new(0)) };
        nodes.push(RawNode::new(&cfg, store, &logger).unwrap());
    }
    let deliver_all = |nodes: &mut Vec<RawNode<Store>>, drop_acks_of_2: bool| loop {
        let mut out = vec![];
        for n in nodes.iter_mut() { handle(n, &mut out); }
        if out.is_empty() { break; }
        for m in out {
            if drop_acks_of_2 && m.from == 2 && m.get_msg_type() == MessageType::MsgAppendResponse { continue; }
            let to = m.to as usize;
            let _ = nodes[to - 1].step(m);
        }
    };
    nodes[0].campaign().unwrap();
    deliver_all(&mut nodes, false);
    assert_eq!(nodes[0].raft.state, StateRole::Leader);
    // a proposal reaches node 2, but node 2's acknowledgement is lost; then the application of node 2
    // asks for a snapshot (allowed: it has a leader and its last entry is of the current term)
    nodes[0].propose(vec![], b"a".to_vec()).unwrap();
    deliver_all(&mut nodes, true);
    let (last2, commit1) = (nodes[1].raft.raft_log.last_index(), nodes[0].raft.raft_log.committed);
    assert!(last2 > commit1, "node 2 holds an entry the leader has not committed");
    nodes[1].request_snapshot().unwrap();
    // fault-free suffix: everything is delivered, everybody ticks, 60 election timeouts
    for _ in 0..(60 * 20) {
        for n in nodes.iter_mut() { n.tick(); }
        deliver_all(&mut nodes, false);
    }
    let st: Vec<_> = nodes.iter().map(|n| (n.raft.id, n.raft.state, n.raft.term, n.raft.raft_log.last_index(), n.raft.raft_log.committed, n.raft.pending_request_snapshot)).collect();
    if nodes[0].raft.raft_log.committed < last2 {
        println!("DEFECT (F15): after 60 fault-free election timeouts the entry at index {} is still not committed: {:?} (id, role, term, last, commit, pending snapshot request)", last2, st);
        std::process::exit(1);
    }
    println!("ok: {:?}", st);
}
