//! F16 (C16): a delayed pre-vote grant from an EARLIER pre-campaign is counted towards the current one.
//! A granted MsgRequestPreVoteResponse carries the term it was asked for (the asker's term + 1).
//! `step_candidate` counted every granted pre-vote response whose term is not below the node's own,
//! so a grant for term T that was asked for while the node was at term T-1 is counted again when the
//! node, now at term T, pre-campaigns for T+1.  With that one stale message a partitioned node
//! "wins" a pre-vote nobody granted, raises its term, and its next reply makes a healthy leader
//! (pre_vote + check_quorum on, heartbeats on schedule) step down.
use raft::eraftpb::{Message, MessageType};
use raft::prelude::*;
use raft::storage::MemStorage;
use raft::{Config, RawNode, StateRole};

fn handle(n: &mut RawNode<MemStorage>) -> Vec<Message> {
    let mut out = vec![];
    while n.has_ready() {
        let mut rd = n.ready();
        out.extend(rd.take_messages());
        n.mut_store().wl().append(rd.entries()).unwrap();
        if let Some(hs) = rd.hs() {
            n.mut_store().wl().set_hardstate(hs.clone());
        }
        out.extend(rd.take_persisted_messages());
        let mut light = n.advance(rd);
        out.extend(light.take_messages());
        n.advance_apply();
    }
    out
}

fn main() {
    let logger = slog::Logger::root(slog::Discard, slog::o!());
    let mut nodes = vec![];
    for id in 1..=3u64 {
        let cfg = Config { id, election_tick: 10, heartbeat_tick: 1, check_quorum: true, pre_vote: true, ..Default::default() };
        let store = MemStorage::new_with_conf_state((vec![1, 2, 3], vec![]));
        nodes.push(RawNode::new(&cfg, store, &logger).unwrap());
    }
    // deliver everything among the nodes in `who` until quiet; messages to others are returned
    fn run(nodes: &mut Vec<RawNode<MemStorage>>, who: &[u64], mut inbox: Vec<Message>) -> Vec<Message> {
        let mut held = vec![];
        loop {
            for m in inbox.drain(..) {
                if who.contains(&m.to) { let _ = nodes[m.to as usize - 1].step(m); } else { held.push(m); }
            }
            let mut out = vec![];
            for &id in who { out.extend(handle(&mut nodes[id as usize - 1])); }
            if out.is_empty() { return held; }
            inbox = out;
        }
    }
    // 1. everybody is at term 0; node 3 pre-campaigns for term 1; node 1 grants; the grant is delayed
    nodes[2].campaign().unwrap();
    let reqs = handle(&mut nodes[2]);
    let to1: Vec<Message> = reqs.into_iter().filter(|m| m.to == 1).collect();
    let held = run(&mut nodes, &[1], to1);
    let stale: Vec<Message> = held.into_iter().filter(|m| m.to == 3 && m.get_msg_type() == MessageType::MsgRequestPreVoteResponse && !m.reject).collect();
    assert_eq!(stale.len(), 1, "node 1 granted node 3's pre-vote for term 1");
    assert_eq!(stale[0].term, 1);
    // 2. node 2 is elected leader of term 1 by nodes 1 and 2; node 3 hears its heartbeat and follows
    nodes[1].campaign().unwrap();
    let m = handle(&mut nodes[1]);
    let _ = run(&mut nodes, &[1, 2, 3], m);
    assert_eq!(nodes[1].raft.state, StateRole::Leader);
    for _ in 0..3 {
        for n in nodes.iter_mut() { n.tick(); }
        let _ = run(&mut nodes, &[1, 2, 3], vec![]);
    }
    assert!(nodes.iter().all(|n| n.raft.term == 1), "everybody is in term 1");
    assert_eq!(nodes[2].raft.state, StateRole::Follower);
    // 3. node 3 is cut off; the leader and node 1 keep exchanging heartbeats on schedule; node 3 times
    //    out and pre-campaigns for term 2 (nobody can answer)
    for _ in 0..25 {
        for n in nodes.iter_mut() { n.tick(); }
        let _ = run(&mut nodes, &[1, 2], vec![]);
        let _ = handle(&mut nodes[2]);
    }
    assert_eq!(nodes[1].raft.state, StateRole::Leader);
    assert_eq!(nodes[2].raft.state, StateRole::PreCandidate);
    assert_eq!(nodes[2].raft.term, 1);
    // 4. the delayed grant for term 1 arrives
    let _ = nodes[2].step(stale[0].clone());
    let _ = handle(&mut nodes[2]);
    let (t3, s3) = (nodes[2].raft.term, nodes[2].raft.state);
    // 5. the partition heals: heartbeats reach node 3 and its answers reach the leader
    for _ in 0..3 {
        for id in [1u64, 2] { nodes[id as usize - 1].tick(); }
        let _ = run(&mut nodes, &[1, 2, 3], vec![]);
    }
    let st: Vec<_> = nodes.iter().map(|n| (n.raft.id, n.raft.state, n.raft.term)).collect();
    if t3 != 1 || nodes[1].raft.state != StateRole::Leader || nodes[1].raft.term != 1 {
        println!("DEFECT (F16): node 3 counted a pre-vote grant for term 1 towards its pre-campaign for term 2 and became {:?} of term {}; after the partition healed: {:?} (the leader of term 1 was exchanging heartbeats with node 1 on schedule all the time)", s3, t3, st);
        std::process::exit(1);
    }
    println!("ok: node 3 ignored the stale grant ({:?} at term {}); {:?}", s3, t3, st);
}
